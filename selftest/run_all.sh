#!/bin/bash
# Runs every registered quick (or thorough) check once; prints one line per check. Not a registered command.
cd "$(dirname "$0")/.."
tier=${1:-quick}
for id in C01 C02 C03 C04 C05 C06 C07 C08 C09 C10 C11 C12 C13 C14 C15 C16 C17 C18 C19 C20; do
  t0=$(date +%s)
  out=$(./check $id --tier $tier 2>&1); rc=$?
  echo "$id rc=$rc $(( $(date +%s) - t0 ))s  $(echo "$out" | grep -v KNOWN-FINDING | tail -1 | cut -c1-150)"
  if [ $rc -ne 0 ]; then echo "$out" | grep -A1 VIOLATION | head -6; fi
done
