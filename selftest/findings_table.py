#!/usr/bin/env python3
"""Rewrites the two tables of DESIGN.md section 6 from KNOWN_FINDINGS.txt (the authoritative list)."""
import os
import re

VERIF = os.path.dirname(os.path.dirname(os.path.abspath(__file__)))
fixed, known = {}, []
for line in open(os.path.join(VERIF, "KNOWN_FINDINGS.txt"), encoding="utf-8"):
    line = line.rstrip("\n")
    m = re.match(r"fixed: property=(C\d+) (\w+) (.*)", line)
    if m:
        fixed.setdefault(m.group(1), []).append((m.group(2), m.group(3)))
        continue
    m = re.match(r"known: property=(C\d+) finding=(\S+) matcher=(\S+) (.*)", line)
    if m:
        known.append(m.groups())


def esc(s, n):
    s = s.replace("|", "\\|")
    return s if len(s) <= n else s[: n - 3] + "..."


t1 = "| property | commit | witness -> wrong behaviour |\n|---|---|---|\n"
for pid in sorted(fixed):
    for commit, text in fixed[pid]:
        t1 += f"| {pid} | `{commit}` | {esc(text, 230)} |\n"
t2 = "| property | finding (matcher) | what fails, and why it is recorded rather than repaired |\n|---|---|---|\n"
for pid, slug, matcher, text in known:
    t2 += f"| {pid} | `{slug}` ({matcher}) | {esc(text, 420)} |\n"
p = os.path.join(VERIF, "DESIGN.md")
s = open(p, encoding="utf-8").read()
for tag, table in (("FINDINGS-FIXED", t1), ("FINDINGS-KNOWN", t2)):
    b, e = f"<!-- {tag}-BEGIN -->", f"<!-- {tag}-END -->"
    s = s[: s.index(b) + len(b)] + "\n" + table + s[s.index(e):]
open(p, "w", encoding="utf-8").write(s)
print(sum(len(v) for v in fixed.values()), "fixed,", len(known), "known")
