#!/bin/bash
# Runs the repository's own test suite with the hook feature OFF (the 84-test baseline).
cd "${1:-/repo}" && CARGO_NET_OFFLINE=true cargo test --workspace --no-fail-fast --offline 2>&1 | grep -E "^test result|FAILED|failed|panicked" | head -20
