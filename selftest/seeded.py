#!/usr/bin/env python3
"""Self-test driver for seeded (property-breaking) changes. Not a registered command.

  seeded.py confirm <dir>...        apply <dir>/patch.diff in a scratch worktree under /tmp, build, run the
                                    84-test baseline, record <dir>/confirm.json (tests must all pass)
  seeded.py run <dir>... [--checks C03,C14] [--tier quick|thorough]
                                    apply the patch to /repo, run the property's own check (or the listed
                                    ones), undo with `git checkout -- .`, record <dir>/result.json
  seeded.py table                   print the table of /verif/seeded/*/result.json

/repo is always restored, also when a check crashes; nothing is ever committed there."""
import glob
import json
import os
import re
import subprocess
import sys
import time

VERIF = os.path.dirname(os.path.dirname(os.path.abspath(__file__)))
REPO = "/repo"
SCRATCH = "/tmp/wt/confirm"


def sh(cmd, **kw):
    return subprocess.run(cmd, shell=True, text=True, stdout=subprocess.PIPE, stderr=subprocess.STDOUT, **kw)


def repo_clean():
    return sh(f"git -C {REPO} status --porcelain --untracked-files=no").stdout.strip() == ""


def confirm(d):
    d = os.path.abspath(d)
    if not os.path.isdir(SCRATCH):
        r = sh(f"git -C {REPO} worktree add -q --detach {SCRATCH} HEAD")
        if r.returncode:
            print(r.stdout)
            return False
    sh(f"git -C {SCRATCH} checkout -q --detach $(git -C {REPO} rev-parse HEAD) && git -C {SCRATCH} checkout -- . && git -C {SCRATCH} clean -fdq -e target")
    r = sh(f"git -C {SCRATCH} apply {d}/patch.diff")
    if r.returncode:
        print(f"[{d}] patch does not apply: {r.stdout[-400:]}")
        json.dump({"applies": False}, open(f"{d}/confirm.json", "w"))
        return False
    t0 = time.time()
    r = sh(f"cd {SCRATCH} && CARGO_NET_OFFLINE=true cargo test --workspace --no-fail-fast --offline 2>&1")
    passed = sum(int(m) for m in re.findall(r"test result: \w+\. (\d+) passed", r.stdout))
    failed = sum(int(m) for m in re.findall(r"test result: \w+\. \d+ passed; (\d+) failed", r.stdout))
    compiled = "error: could not compile" not in r.stdout
    ok = compiled and passed == 84 and failed == 0
    json.dump({"applies": True, "compiles": compiled, "tests_passed": passed, "tests_failed": failed, "head": sh(f"git -C {REPO} rev-parse --short HEAD").stdout.strip(), "wall_s": round(time.time() - t0, 1)}, open(f"{d}/confirm.json", "w"), indent=1)
    print(f"[{d}] compiles={compiled} passed={passed} failed={failed} -> {'OK' if ok else 'REJECT'}")
    sh(f"git -C {SCRATCH} checkout -- .")
    return ok


def run(d, checks, tier):
    d = os.path.abspath(d)
    meta = json.load(open(f"{d}/meta.json"))
    pid = meta["property"]
    checks = checks or [pid]
    if not repo_clean():
        print("refusing: /repo has local modifications")
        sys.exit(2)
    res = {"property": pid, "tier": tier, "checks": {}}
    try:
        r = sh(f"git -C {REPO} apply {d}/patch.diff")
        if r.returncode:
            print(f"[{d}] patch does not apply to /repo: {r.stdout[-300:]}")
            return None
        for c in checks:
            t0 = time.time()
            r = sh(f"cd {VERIF} && ./check {c} --tier {tier}")
            viol = [l for l in r.stdout.split("\n") if l.startswith("VIOLATION")]
            summ = [l.strip() for l in r.stdout.split("\n") if l.startswith("  ")][:3]
            res["checks"][c] = {"exit": r.returncode, "violations": len(viol), "first": summ[:2], "wall_s": round(time.time() - t0, 1), "tail": r.stdout.strip().split("\n")[-1][:300]}
            print(f"[{os.path.basename(d)}] {c} {tier}: exit={r.returncode} violations={len(viol)} {time.time() - t0:.0f}s  {summ[0][:160] if summ else ''}")
    finally:
        sh(f"git -C {REPO} checkout -- .")
        assert repo_clean()
    res["detected_by"] = [c for c, v in res["checks"].items() if v["exit"] == 1]
    prev = {}
    if os.path.exists(f"{d}/result.json"):
        prev = json.load(open(f"{d}/result.json"))
    runs = prev.get("runs", [])
    runs.append(res)
    json.dump({"runs": runs}, open(f"{d}/result.json", "w"), indent=1)
    return res


def table():
    for d in sorted(glob.glob(f"{VERIF}/seeded/*/")):
        if not os.path.exists(d + "result.json"):
            print(os.path.basename(d[:-1]), "(not run)")
            continue
        meta = json.load(open(d + "meta.json"))
        runs = json.load(open(d + "result.json"))["runs"]
        det = sorted({f"{c}:{r['tier']}" for r in runs for c in r["detected_by"]})
        miss = sorted({f"{c}:{r['tier']}" for r in runs for c, v in r["checks"].items() if v["exit"] != 1})
        print(f"{os.path.basename(d[:-1]):8} detected_by={','.join(det) or '-':28} silent={','.join(miss) or '-':20} {meta['title'][:110]}")


def design_table():
    """Rewrite the table between the SEEDED-TABLE markers of DESIGN.md from seeded/*/{meta,confirm,result}.json."""
    rows = []
    for d in sorted(glob.glob(f"{VERIF}/seeded/*/")):
        if not os.path.exists(d + "meta.json"):
            continue
        sid = os.path.basename(d[:-1])
        meta = json.load(open(d + "meta.json"))
        runs = json.load(open(d + "result.json"))["runs"] if os.path.exists(d + "result.json") else []
        conf = json.load(open(d + "confirm.json")) if os.path.exists(d + "confirm.json") else {}
        det = sorted({f"{c} {r['tier']}" for r in runs for c in r["detected_by"]})
        files = sorted({os.path.basename(f) for f in meta.get("files", [])}) if isinstance(meta.get("files"), list) else []
        title = meta["title"].replace("|", "\\|").replace("\n", " ")
        if len(title) > 150:
            title = title[:147] + "..."
        rows.append(f"| {sid} | {', '.join(files)[:40]} | {title} | {conf.get('tests_passed', '?')}/84 | {', '.join(det) if det else '**not detected**'} |")
    table = "| seeded change | file(s) | what it breaks | tests | detected by |\n|---|---|---|---|---|\n" + "\n".join(rows)
    p = os.path.join(VERIF, "DESIGN.md")
    s = open(p, encoding="utf-8").read()
    b, e = "<!-- SEEDED-TABLE-BEGIN -->", "<!-- SEEDED-TABLE-END -->"
    if b in s and e in s:
        s = s[: s.index(b) + len(b)] + "\n" + table + "\n" + s[s.index(e):]
        open(p, "w", encoding="utf-8").write(s)
        print(f"DESIGN.md: {len(rows)} rows written")
    else:
        print(table)


if __name__ == "__main__":
    a = sys.argv[1:]
    if not a:
        print(__doc__)
        sys.exit(2)
    cmd, a = a[0], a[1:]
    checks, tier, dirs = None, "quick", []
    i = 0
    while i < len(a):
        if a[i] == "--checks":
            checks = a[i + 1].split(",")
            i += 2
        elif a[i] == "--tier":
            tier = a[i + 1]
            i += 2
        else:
            dirs.append(a[i])
            i += 1
    if cmd == "confirm":
        for d in dirs:
            confirm(d)
    elif cmd == "run":
        for d in dirs:
            run(d, checks, tier)
    elif cmd == "table":
        table()
    elif cmd == "design-table":
        design_table()
