#!/bin/bash
# Run once after a fresh restore, offline: builds the Rust driver (both profiles used by quick checks)
# against /repo's working tree and the type-stripped runtime.
set -e
cd "$(dirname "$0")"
export CARGO_NET_OFFLINE=true
python3 - <<'PY'
import sys, os
sys.path.insert(0, 'lib/py')
import common, check
common.build_gev('checked')
common.build_gev('shipped')
node = check.find_node()
print('node for the runtime build:', node)
if node:
    import subprocess
    subprocess.run([node, '--no-warnings', '-e', "import('%s/lib/js/rt.mjs').then(m=>{const r=m.ensureRuntimeBuilt();console.log('runtime', r.hash.slice(0,16))})" % common.VERIF], check=True)
PY
echo setup done
