import * as h from './hooks.mjs'
import fs from 'node:fs'
import path from 'node:path'
const [src, out] = process.argv.slice(2)
function walk(d, o=[]) { for (const e of fs.readdirSync(d,{withFileTypes:true})) { const p=path.join(d,e.name); if (e.isDirectory()) walk(p,o); else if (p.endsWith('.ts')) o.push(p) } return o }
for (const f of walk(src)) {
  let { source } = await h.load('file://' + f, {}, null)
  source = source.replace(/(from\s*|import\s*\(\s*)(['"])(\.[^'"]*)\2/g, (all, pre, q, spec) => {
    const base = path.resolve(path.dirname(f), spec)
    let target = null
    for (const c of [base + '.ts', path.join(base, 'index.ts')]) if (fs.existsSync(c)) { target = c; break }
    if (!target) return all
    let rel = path.relative(path.dirname(f), target).replace(/\.ts$/, '.mjs'); if (!rel.startsWith('.')) rel = './' + rel
    return `${pre}${q}${rel}${q}`
  })
  const dest = path.join(out, path.relative(src, f)).replace(/\.ts$/, '.mjs')
  fs.mkdirSync(path.dirname(dest), { recursive: true }); fs.writeFileSync(dest, source)
}
console.log('built')
