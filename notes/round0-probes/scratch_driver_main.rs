use glass_easel_template_compiler::*;
use glass_easel_stylesheet_compiler::*;
use std::io::Read;
fn main() {
    let args: Vec<String> = std::env::args().collect();
    let mut s = String::new();
    std::io::stdin().read_to_string(&mut s).unwrap();
    if args.get(1).map(|x| x.as_str()) == Some("css") {
        let opts = StyleSheetOptions {
            class_prefix: args.get(2).filter(|x| x.as_str() != "-").cloned(),
            class_prefix_sign: None,
            rpx_ratio: args.get(3).map(|x| x.parse().unwrap()).unwrap_or(750.),
            import_sign: args.get(4).filter(|x| x.as_str() != "-").cloned(),
            convert_host: args.get(5).map(|x| x == "1").unwrap_or(false),
            host_is: None,
        };
        let t = StyleSheetTransformer::from_css("p", &s, opts);
        for w in t.warnings() { eprintln!("W {}", w); }
        let (a, b) = t.output_and_low_priority_output();
        let mut o = String::new(); a.write_str(&mut o).unwrap();
        let mut l = String::new(); b.write_str(&mut l).unwrap();
        println!("OUT: {}", o);
        println!("LOW: {}", l);
        return;
    }
    if args.get(1).map(|x| x.as_str()) == Some("multi") {
        // stdin: lines "path\tcontent"
        let mut g = TmplGroup::new();
        for line in s.lines() { let (p, c) = line.split_once('\t').unwrap(); if let Some(sp) = p.strip_prefix("S:") { g.add_script(sp, c); } else { g.add_tmpl(p, c); } }
        println!("{}", g.get_tmpl_gen_object_groups().unwrap());
        return;
    }
    let mut g = TmplGroup::new();
    let w = g.add_tmpl("", &s);
    for x in w { eprintln!("{} level={:?}", x, x.level() as u8); }
    println!("{}", g.get_tmpl_gen_object_groups().unwrap());
    eprintln!("STRINGIFY: {}", g.stringify_tmpl("").unwrap());
}
