import { execFileSync } from 'node:child_process'
const ge = await import('/tmp/ge_exp/rt/index.mjs')
ge.globalOptions.throwGlobalError = true
ge.addGlobalWarningListener(() => false)
const compile = (src) => new Function('return ' + execFileSync('./h/target/debug/h', { input: src, stdio: ['pipe','pipe','pipe'] }).toString())()
const snap = (n) => n.childNodes === undefined ? JSON.stringify(n.textContent) : '<' + (n.is||'') + (n.attributes ? n.attributes.map(a => ' ' + a.name + '=' + JSON.stringify(a.value)).join('') : '') + '>' + n.childNodes.map(snap).join('') + '</>'
const opts = { dataDeepCopy: ge.DeepCopyKind.None, propertyPassingDeepCopy: ge.DeepCopyKind.None }
const cases = [
  ['<x v="{{a}}"/><y wx:if="{{c}}" w="{{[ , a]}}"/>', { a: 1, c: true }, { a: 2 }],
  ['<x v="{{a}}"/><y wx:if="{{c}}" w="{{a}}"/>', { a: 1, c: true }, { a: 2 }],
  ['<x v="{{a}}">{{a}}-{{b}}</x>', { a: 1, b: 1 }, { a: 2 }],
  ['<x v="{{a}}"/><block wx:for="{{[1,2]}}"><y w="{{ {k: a}.k }}"/></block>', { a: 1 }, { a: 2 }],
  ['<x class="c {{a}}" style="s:{{a}}" id="{{a}}" data-q="{{a}}" mark:m="{{a}}" bind:tap="{{a}}" model:value="{{a}}" change:p="{{a}}"/>', { a: 'p' }, { a: 'q' }],
]
for (const [src, d0, patch] of cases) {
  try {
    const G = compile(src)
    let B
    const content = (name) => { const pg = G[''](name); return (R, C, D, U) => { const r = pg(R, C, D, U); if (C) B = r.B; return r } }
    const mk = (data) => ge.Component.createWithContext('root', ge.registerElement({ template: { groupList: G, content }, data, options: opts }).general(), new ge.EmptyComposedBackendContext())
    const e1 = mk({ ...d0 }); const keys = Object.keys(B || {})
    e1.setData(patch)
    const e2 = mk({ ...e1.data })
    const s1 = snap(e1.getShadowRoot()), s2 = snap(e2.getShadowRoot())
    console.log(s1 === s2 ? 'ok   ' : 'STALE', 'B=' + JSON.stringify(keys), src, s1 === s2 ? '' : '\n      upd=' + s1 + '\n      new=' + s2)
  } catch (ex) { console.log('EXC  ', src, ex.stack.split('\n').slice(0,3).join(' | ')) }
}
