import { stripTypeScriptTypes } from 'node:module'
import fs from 'node:fs'
import path from 'node:path'
import { fileURLToPath, pathToFileURL } from 'node:url'
function resolveFile(base, specifier) {
  const p = path.resolve(base, specifier)
  for (const cand of [p + '.ts', path.join(p, 'index.ts'), p]) {
    if (fs.existsSync(cand) && fs.statSync(cand).isFile()) return cand
  }
  return null
}

const SRC_ROOT = '/repo/glass-easel/src'
let constEnums = null
function walk(d, out=[]) { for (const e of fs.readdirSync(d, {withFileTypes:true})) { const p = path.join(d, e.name); if (e.isDirectory()) walk(p, out); else if (p.endsWith('.ts')) out.push(p) } return out }
function getConstEnums() {
  if (constEnums) return constEnums
  constEnums = new Map()
  for (const f of walk(SRC_ROOT)) {
    const src = fs.readFileSync(f, 'utf8')
    for (const m of src.matchAll(/export\s+const\s+enum\s+([A-Za-z_$][\w$]*)\s*\{([^}]*)\}/g)) {
      const members = new Map(); let next = 0
      const body = m[2].replace(/\/\/[^\n]*/g, '').replace(/\/\*[\s\S]*?\*\//g, '')
      for (const part of body.split(',')) {
        const t = part.trim(); if (!t) continue
        const mm = t.match(/^([A-Za-z_$][\w$]*)\s*(?:=\s*(.+))?$/s)
        if (!mm) throw new Error('enum parse ' + f + ' ' + t)
        let v
        if (mm[2] !== undefined) { v = mm[2].trim(); if (/^-?\d+$/.test(v)) next = Number(v) + 1; else next = NaN } else { v = String(next); next += 1 }
        members.set(mm[1], v)
      }
      constEnums.set(m[1], { file: f, members })
    }
  }
  return constEnums
}
function inlineConstEnums(file, src) {
  for (const [name, { file: def, members }] of getConstEnums()) {
    if (def === file) continue
    src = src.replace(new RegExp('(^|[^\\w$.])' + name + '\\.([A-Za-z_$][\\w$]*)', 'g'), (all, pre, mem) => members.has(mem) ? `${pre}(${members.get(mem)})` : all)
  }
  return src
}

const cache = new Map()
function stripped(file) {
  if (!cache.has(file)) cache.set(file, inlineConstEnums(file, stripTypeScriptTypes(fs.readFileSync(file, 'utf8'), { mode: 'transform' })))
  return cache.get(file)
}
const exportsCache = new Map()
function valueExports(file, seen = new Set()) {
  if (exportsCache.has(file)) return exportsCache.get(file)
  if (seen.has(file)) return new Set()
  seen.add(file)
  const src = stripped(file)
  const out = new Set()
  for (const m of src.matchAll(/export\s+(?:default\s+)?(?:async\s+)?(?:const|let|var|function\*?|class)\s+([A-Za-z_$][\w$]*)/g)) out.add(m[1])
  for (const m of src.matchAll(/export\s*\{([^}]*)\}\s*(?:from\s*['"]([^'"]+)['"])?/g)) {
    const names = m[1].split(',').map(s => s.trim()).filter(Boolean)
    let targetExports = null
    if (m[2] && m[2].startsWith('.')) {
      const t = resolveFile(path.dirname(file), m[2]); if (t) targetExports = valueExports(t, seen)
    }
    for (const n of names) {
      const parts = n.split(/\s+as\s+/)
      if (targetExports && !targetExports.has(parts[0]) && parts[0] !== 'default') continue
      out.add(parts[1] || parts[0])
    }
  }
  for (const m of src.matchAll(/export\s*\*\s*from\s*['"]([^'"]+)['"]/g)) {
    const t = resolveFile(path.dirname(file), m[1]); if (t) for (const n of valueExports(t, seen)) out.add(n)
  }
  for (const m of src.matchAll(/export\s*\*\s*as\s+([A-Za-z_$][\w$]*)\s*from/g)) out.add(m[1])
  exportsCache.set(file, out)
  return out
}
function fixup(file) {
  let src = stripped(file)
  src = src.replace(/(import|export)\s*\{([^}]*)\}\s*from\s*(['"])([^'"]+)\3/g, (all, kw, names, q, spec) => {
    if (!spec.startsWith('.')) return all
    const t = resolveFile(path.dirname(file), spec); if (!t) return all
    const ex = valueExports(t)
    let kept = names.split(',').map(s => s.trim()).filter(Boolean).filter(n => ex.has(n.split(/\s+as\s+/)[0]))
    if (kw === 'import') kept = kept.filter(n => { const parts = n.split(/\s+as\s+/); const local = parts[1] || parts[0]; const re = new RegExp('(^|[^\\w$.])' + local.replace(/\$/g,'\\$') + '(?![\\w$])', 'g'); const body = stripped(file).replace(/^import[^;]*;?$/gm, ''); return re.test(body) })
    if (kept.length === 0) return ''
    return `${kw} { ${kept.join(', ')} } from ${q}${spec}${q}`
  })
  src = src.replace(/^import\s*(['"])\.[^'"]*\1;?\s*$/gm, '')
  return src
}
export async function resolve(specifier, context, nextResolve) {
  if ((specifier.startsWith('./') || specifier.startsWith('../')) && context.parentURL && context.parentURL.startsWith('file:')) {
    const f = resolveFile(path.dirname(fileURLToPath(context.parentURL)), specifier)
    if (f) return { url: pathToFileURL(f).href, shortCircuit: true }
  }
  return nextResolve(specifier, context)
}
export async function load(url, context, nextLoad) {
  if (url.endsWith('.ts')) return { format: 'module', source: fixup(fileURLToPath(url)), shortCircuit: true }
  return nextLoad(url, context)
}
