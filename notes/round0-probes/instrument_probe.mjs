import fs from 'node:fs'
const ge = await import('/repo/glass-easel/src/index.ts')
ge.globalOptions.throwGlobalError = true
ge.addGlobalWarningListener((m)=>{ console.log('WARN', m) })
const load = (f) => new Function('return ' + fs.readFileSync(f,'utf8'))()
const log = []
const instrument = (G) => {
  const wrapChildren = (ch, tag) => (C, T, E, B, F, S, J, V, W) => ch(C,
    T && ((t, init) => { log.push(['T', C, t]); return T(t, init) }),
    E && ((tag, gen, init, children, slot, dsv) => { log.push(['E', C, tag, slot, dsv]); return E(tag, gen, init, wrapChildren(children), slot, dsv) }),
    B && ((k, f) => { log.push(['B', C, k]); return B(k, wrapChildren(f)) }),
    F && ((list, key, u, lv, cb) => { log.push(['F', C, JSON.stringify(list), key, JSON.stringify(u), lv]); return F(list, key, u, lv, (C2, item, index, iu, xu, ilv, ...rest) => { log.push(['Fitem', C2, JSON.stringify(item), index, JSON.stringify(iu), xu, ilv]); const [T2,E2,B2,F2,S2,J2] = rest; return wrapChildren((c, ...r) => cb(c, item, index, iu, xu, ilv, ...r))(C2, T2, E2, B2, F2, S2, J2) }) }),
    S && ((name, init, slot) => { log.push(['S', C, name, slot]); return S(name, init, slot) }),
    J && ((children, slot) => { log.push(['J', C, slot]); return J(wrapChildren(children), slot) }),
    V, W)
  const content = (name) => { const pg = G[''](name); if (!pg) return pg; return (R, C, D, U) => {
    const RP = new Proxy(R, { get(t, p) { const v = t[p]; if (typeof v === 'function' && typeof p === 'string' && p.length <= 2) return (...a) => { log.push(['R.' + p, ...a.slice(1).map(x => { try { return JSON.stringify(x) } catch { return String(x) } })]); return v.apply(t, a) }; return v } })
    const r = pg(RP, C, D, U); return { C: wrapChildren(r.C), B: r.B } } }
  return { groupList: G, content }
}
const childDef = ge.registerElement({ options: { dynamicSlots: true }, template: instrument(load('child.js')), data: { list: [{k:1,x:'a'},{k:2,x:'b'}] } })
const def = ge.registerElement({ using: { child: childDef.general() }, template: instrument(load('parent.js')), data: { a: 'A' } })
const elem = ge.Component.createWithContext('root', def.general(), new ge.EmptyComposedBackendContext())
const dump = (n, d=0) => { const pad = '  '.repeat(d); if (n.childNodes === undefined) { console.log(pad + JSON.stringify(n.textContent)); return } console.log(pad + '<' + (n.is ?? '?') + '>' + (n.dataset ? JSON.stringify(n.dataset) : '')); n.childNodes.forEach(c => dump(c, d+1)) }
dump(elem.getShadowRoot())
const n0 = log.length
const c = elem.getShadowRoot().getElementById('c')
c.setData({ 'list[1].x': 'B2' })
dump(elem.getShadowRoot())
console.log(log.slice(n0).map(x => x.join(' ')).join('\n'))
const t0 = process.hrtime.bigint()
for (let i = 0; i < 2000; i++) { ge.Component.createWithContext('root', def.general(), new ge.EmptyComposedBackendContext()) }
console.log('create x2000 ms', Number(process.hrtime.bigint() - t0) / 1e6)
