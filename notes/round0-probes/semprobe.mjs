import { execFileSync } from 'node:child_process'
const ge = await import('/tmp/ge_exp/rt/index.mjs')
ge.globalOptions.throwGlobalError = true
const warns = []
ge.addGlobalWarningListener((m) => { warns.push(String(m).slice(0, 60)); return false })
const compileMulti = (files) => new Function('return ' + execFileSync('./h/target/debug/h', ['multi'], { input: Object.entries(files).map(([p, c]) => p + '\t' + c.replace(/\n/g, ' ')).join('\n') + '\n', stdio: ['pipe', 'pipe', 'pipe'] }).toString())()
const show = (v) => typeof v === 'function' ? 'fn' : v === undefined ? 'undefined' : JSON.stringify(v)
const opts = { dataDeepCopy: ge.DeepCopyKind.None, propertyPassingDeepCopy: ge.DeepCopyKind.None }
const run = (files, data) => {
  const G = compileMulti(files)
  const log = []
  const wrapC = (ch) => (C, T, E, B, F, S, J, V, W) => ch(C,
    T && ((t, i) => { log.push('T(' + show(t) + ')'); return T(t, i) }),
    E && ((tag, g, init, c, slot, dsv) => { log.push('E(' + [tag, show(g), show(slot), show(dsv)].join(',') + ')'); return E(tag, g, init, wrapC(c), slot, dsv) }),
    B && ((k, f) => { log.push('B(' + show(k) + ')'); return B(k, wrapC(f)) }),
    F && ((l, k, u, lv, cb) => { log.push('F(' + [show(l), show(k), show(lv)].join(',') + ')'); return F(l, k, u, lv, (C2, it, ix, iu, xu, ilv, T2, E2, B2, F2, S2, J2) => wrapC((c, ...r) => cb(c, it, ix, iu, xu, ilv, ...r))(C2, T2, E2, B2, F2, S2, J2)) }),
    S && ((n, i, s) => { log.push('S(' + show(n) + ',' + show(s) + ')'); return S(n, i, s) }),
    J && ((c, s) => { log.push('J(' + show(s) + ')'); return J(wrapC(c), s) }), V, W)
  const content = (name) => { const pg = G['main'](name); return (R, C, D, U) => { const RP = new Proxy(R, { get(t, p) { const v = t[p]; if (typeof v === 'function' && typeof p === 'string' && p.length <= 2) return (...a) => { log.push('R.' + p + '(' + a.slice(1).map(show).join(',') + ')'); return v.apply(t, a) }; return v } }); const r = pg(RP, C, D, U); return { C: wrapC(r.C), B: r.B } } }
  try { ge.Component.createWithContext('root', ge.registerElement({ template: { groupList: G, content }, data, options: opts }).general(), new ge.EmptyComposedBackendContext()) } catch (e) { log.push('EXC ' + e.message) }
  return log.join(' ')
}
const P = (title, files, data = {}) => { warns.length = 0; console.log('## ' + title + '\n   ' + run(typeof files === 'string' ? { main: files } : files, data) + (warns.length ? '\n   warn: ' + warns.join(' | ') : '')) }
P('static if', '<a wx:if="">1</a><b wx:elif="x">2</b><c wx:else>3</c>')
P('static for', '<a wx:for="ab">{{item}}{{index}}</a>')
P('valueless', '<a p data-d data:e mark:m bind:t catch:c class style id slot model:v change:q worklet:w generic:g extra-attr:x hidden/>')
P('mixed ws', '<a>  x {{a}}\n y  </a><b> \n </b><c>{{a}}</c><d> {{a}} </d>', { a: null })
P('attr kinds', '<a p="{{a}}" q="x{{a}}" class="{{a}}" style="{{a}}" id="{{a}}" slot="{{a}}" data-foo-Bar="{{a}}" data:fooBar="1" mark:m-n="{{a}}" model:v-w="{{a}}" change:c-d="{{f}}" worklet:w-x="s" generic:g-h="i" extra-attr:e-f="j" bind:t-u="h" catch:v="{{a}}" mut-bind:w="h" capture-bind:x="h" capture-catch:y="h" capture-mut-bind:z="h"/>', { a: [1], f: () => 1 })
P('template is', '<template name="t"><x v="{{a}}-{{b}}-{{c}}"/></template><template is="t" data="{{a, b: 1}}"/><template is="{{n}}" data="{{...o}}"/><template is="nope"/><template is="t"/>', { a: 'A', c: 'C', n: 't', o: { a: 2, b: 3, c: 4 } })
P('include/import', { main: '<import src="./lib"/><include src="inc"/><template is="lt" data="{{v: 1}}"/>', lib: '<template name="lt"><l v="{{v}}"/></template>', inc: '<i w="{{a}}"/>' }, { a: 'A' })
P('slot', '<slot/><slot name="n" a-b="{{a}}" c="s" d/><slot name="{{a}}" slot="q"/><block slot="s">t</block><block slot="{{a}}">u</block>', { a: 'A' })
P('wxs', '<wxs module="m">exports.f = function(x){ return x + 1 }; exports.k = 5</wxs><a v="{{m.f(1)}}" w="{{m.k}}" bind:tap="{{m.f}}" change:p="{{m.f}}" onx="{{m.f}}"/>')
P('for kinds', '<a wx:for="{{o}}" wx:for-item="v" wx:for-index="k">{{k}}={{v}}</a><b wx:for="{{3}}">{{item}}</b><c wx:for="{{s}}">{{item}}</c><d wx:for="{{n}}">x</d>', { o: { x: 1, y: 2 }, s: 'hi', n: null })
P('if+for', '<a wx:for="{{l}}" wx:if="{{item}}">{{item}}</a><!-- c --><b wx:else>no</b>', { l: [0, 1] })
P('model paths', '<a wx:for="{{l}}" model:v="{{item.x}}" model:w="{{l[index].x}}" model:u="{{c ? p.q : r[k]}}" model:z="{{a+1}}" model:i="{{index}}"/>', { l: [{ x: 1 }], c: true, p: { q: 1 }, r: { s: 2 }, k: 's', a: 1 })
