import { execFileSync } from 'node:child_process'
const ge = await import('/tmp/ge_exp/rt/index.mjs')
ge.globalOptions.throwGlobalError = true
ge.addGlobalWarningListener(() => false)
const compile = (src) => new Function('return ' + execFileSync('./h/target/debug/h', { input: src, stdio: ['pipe','pipe','pipe'] }).toString())()
const snap = (n) => n.childNodes === undefined ? JSON.stringify(n.textContent) : '<' + (n.is||'') + (n.attributes ? n.attributes.map(a => ' ' + a.name + '=' + JSON.stringify(a.value)).join('') : '') + (n.dataset && Object.keys(n.dataset).length ? ' data=' + JSON.stringify(n.dataset) : '') + '>' + n.childNodes.map(snap).join('') + '</>'
const opts = { dataDeepCopy: ge.DeepCopyKind.None, propertyPassingDeepCopy: ge.DeepCopyKind.None }
const cases = [
  ['<x v="{{ [ , a][1] }}"/>', { a: 1 }, { a: 2 }],
  ['<x v="{{ (c ? o1 : o2).x }}"/>', { c: true, o1: { x: 1 }, o2: { x: 2 } }, { c: false }],
  ['<x v="{{ (c ? o1 : o2).x }}"/>', { c: false, o1: { x: 1 }, o2: { x: 2 } }, { 'o2.x': 3 }],
  ['<x v="{{ o[k] }}"/>', { o: { x: 1, y: 2 }, k: 'x' }, { k: 'y' }],
  ['<x v="{{ o[k] }}"/>', { o: { x: 1, y: 2 }, k: 'y' }, { 'o.y': 5 }],
  ['<x v="{{ o[k[0]] }}"/>', { o: { x: 1, y: 2 }, k: ['y'] }, { 'k[0]': 'x' }],
  ['<template name="t"><y w="{{x}}-{{z}}"/></template><template is="t" data="{{ ...o, z: a }}"/>', { o: { x: 1 }, a: 2 }, { 'o.x': 9 }],
  ['<template name="t"><y w="{{x}}-{{z}}"/></template><template is="t" data="{{ ...o, z: a }}"/>', { o: { x: 1 }, a: 2 }, { a: 7 }],
  ['<x v="{{ f(a) }}"/>', { f: (v) => v * 2, a: 2 }, { a: 5 }],
  ['<x v="{{ a ?? b }}"/>', { a: null, b: 1 }, { b: 2 }],
  ['<x wx:for="{{list}}" v="{{item.v}}-{{index}}"/>', { list: [{ v: 1 }, { v: 2 }] }, { 'list[1].v': 5 }],
  ['<x wx:for="{{obj}}" v="{{item}}-{{index}}"/>', { obj: { a: 1, b: 2 } }, { 'obj.b': 5 }],
  ['<x v="{{ {p: a}.p }}"/>', { a: 1 }, { a: 2 }],
  ['<x v="{{ [a, ...arr][2] }}"/>', { a: 0, arr: [1, 2] }, { 'arr[1]': 9 }],
  ['<x v="{{ [...arr, a][2] }}"/>', { a: 0, arr: [1, 2] }, { a: 9 }],
  ['<x v="{{ {...o}.x }}"/>', { o: { x: 1 } }, { 'o.x': 2 }],
  ['<x wx:if="{{a}}" v="{{b}}"/><y wx:else v="{{b}}"/>', { a: true, b: 1 }, { a: false, b: 2 }],
  ['<x wx:for="{{list}}" wx:key="k"><y wx:for="{{item.sub}}" wx:for-item="s" v="{{s}}-{{item.k}}"/></x>', { list: [{ k: 1, sub: [1, 2] }, { k: 2, sub: [3] }] }, { 'list[0].sub[1]': 7 }],
  ['<x v="{{ a.b.c }}"/>', { a: { b: { c: 1 } } }, { 'a.b': { c: 2 } }],
  ['<x v="{{ typeof a }} {{ !a }} {{ -a }}"/>', { a: 1 }, { a: 'x' }],
  ['<x v="{{ a[b][c] }}"/>', { a: { p: { q: 1, r: 2 } }, b: 'p', c: 'q' }, { c: 'r' }],
  ['<x v="{{ a ? b : c }}"/>', { a: 1, b: 2, c: 3 }, { c: 4 }],
  ['<x v="{{ a ? b : c }}"/>', { a: 0, b: 2, c: 3 }, { c: 4 }],
]
for (const [src, d0, patch] of cases) {
  try {
    const G = compile(src)
    const tmpl = { groupList: G, content: G[''] }
    const mk = (data) => ge.Component.createWithContext('root', ge.registerElement({ template: tmpl, data, options: opts }).general(), new ge.EmptyComposedBackendContext())
    const e1 = mk(JSON.parse(JSON.stringify(d0, (k, v) => typeof v === 'function' ? undefined : v)))
    if (d0.f) e1.setData({ f: d0.f })
    e1.setData(patch)
    const e2 = mk({ ...e1.data })
    const s1 = snap(e1.getShadowRoot()), s2 = snap(e2.getShadowRoot())
    console.log(s1 === s2 ? 'ok   ' : 'STALE', src, JSON.stringify(patch), s1 === s2 ? '' : '\n      upd=' + s1 + '\n      new=' + s2)
  } catch (ex) { console.log('EXC  ', src, ex.message) }
}
