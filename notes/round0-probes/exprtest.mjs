import fs from 'node:fs'
import { execFileSync } from 'node:child_process'
const ge = await import('/tmp/ge_exp/rt/index.mjs')
ge.globalOptions.throwGlobalError = true
ge.addGlobalWarningListener(() => false)
const exprs = JSON.parse(fs.readFileSync('exprs.json','utf8'))
const env = { a: 0, b: 5, c: 3, z: null, s: 'ab', arr: [1,2], n: null, f: function(x,y){ return [typeof this, x, y] }, o: { x: { y: 7 }, m(v){ return [typeof this, v] } }, k: 'x' }
for (const e of exprs) {
  let js, err = ''
  try { js = execFileSync('./h/target/debug/h', { input: `<x v="{{ ${e} }}"/>`, stdio: ['pipe','pipe','pipe'] }).toString() } catch (ex) { console.log(e, '=> COMPILE CRASH'); continue }
  let got, ref
  try {
    const G = new Function('return ' + js)()
    const log = []
    const content = (name) => { const pg = G[''](name); return (R, C, D, U) => { const RP = new Proxy(R, { get(t,p){ if (p==='r') return (n, name, v, ...rest) => { log.push(v); }; return t[p] } }); return pg(RP, C, D, U) } }
    const def = ge.registerElement({ template: { groupList: G, content }, data: env, options: { dataDeepCopy: ge.DeepCopyKind.None, propertyPassingDeepCopy: ge.DeepCopyKind.None } })
    ge.Component.createWithContext('root', def.general(), new ge.EmptyComposedBackendContext())
    got = log[0]
  } catch (ex) { got = 'THROW ' + ex.message }
  try { ref = new Function(...Object.keys(env), 'return (' + e + ')')(...Object.values(env)) } catch (ex) { ref = 'THROW ' + ex.message }
  const show = (v) => { try { return typeof v === 'function' ? 'fn' : (Object.is(v,-0) ? '-0' : JSON.stringify(v)) ?? String(v) } catch { return String(v) } }
  const same = show(got) === show(ref)
  console.log(same ? 'ok  ' : 'DIFF', e, '=>', show(got), '| ref', show(ref))
}
