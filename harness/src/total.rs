//! `gev total`: totality worker (C01) — every phase under catch_unwind with the monitors armed.
use crate::{alloc, css, monitor, tmpl, util::guarded};
use glass_easel_template_compiler::TmplGroup;
use serde_json::{json, Value};

fn classify(p: &Value) -> &'static str {
    let msg = p["msg"].as_str().unwrap_or("");
    if msg.starts_with("VERIF-STALL") {
        "stall"
    } else if msg.starts_with("VERIF-FUEL") {
        "fuel"
    } else if msg.starts_with("VERIF-ALLOC") {
        "alloc"
    } else {
        "panic"
    }
}

pub fn run_case(case: &Value) -> Value {
    let id = case.get("id").cloned().unwrap_or(Value::Null);
    let kind = case.get("kind").and_then(|x| x.as_str()).unwrap_or("tmpl");
    let src = case.get("src").and_then(|x| x.as_str()).unwrap_or("");
    let path = case.get("path").and_then(|x| x.as_str()).unwrap_or("a");
    let n = src.len();
    let pos_check = n <= 8192;
    monitor::arm(n, pos_check, n <= 8192, false);
    let base = alloc::reset_peak();
    // soft cap: generous linear envelope; the real envelope is judged by the orchestrator from `peak`
    alloc::set_caps(base + 64 * 1024 * 1024 + 8192 * n, base + 3 * 1024 * 1024 * 1024);
    let mut failures: Vec<Value> = vec![];
    let mut n_diag = 0usize;
    let mut out_len = 0usize;
    let mut bad_diag: Vec<Value> = vec![];
    if kind == "css" {
        let opts = css::options(case.get("opts").unwrap_or(&Value::Null));
        match guarded("transform_css", || css::transform(path, src, opts, true)) {
            Ok(r) => {
                n_diag = r.warnings.len();
                out_len = r.out.len() + r.low.len() + r.map_json.len() + r.low_map_json.len();
            }
            Err(p) => failures.push(p),
        }
    } else {
        let mut group = TmplGroup::new();
        let script = case.get("script").and_then(|x| x.as_str());
        if let Some(s) = script {
            group.add_script("s", s);
        }
        match guarded("add_tmpl", || group.add_tmpl(path, src)) {
            Ok(diags) => {
                n_diag = diags.len();
                // C15(iii) is checked here for every input of the totality workload as well
                let lines: Vec<&str> = src.split('\n').collect();
                for d in diags.iter() {
                    let (sl, sc, el, ec) = (
                        d.location.start.line as usize,
                        d.location.start.utf16_col as usize,
                        d.location.end.line as usize,
                        d.location.end.utf16_col as usize,
                    );
                    let ok = (sl, sc) <= (el, ec)
                        && el < lines.len()
                        && sc <= lines[sl].encode_utf16().count()
                        && ec <= lines[el].encode_utf16().count();
                    if !ok && bad_diag.len() < 4 {
                        bad_diag.push(tmpl::diag_json(d));
                    }
                }
                macro_rules! phase {
                    ($name:expr, $e:expr) => {
                        match guarded($name, || $e) {
                            Ok(l) => out_len += l,
                            Err(p) => failures.push(p),
                        }
                    };
                }
                phase!("get_tmpl_gen_object", group.get_tmpl_gen_object(path).map(|s| s.len()).unwrap_or(0));
                phase!("get_tmpl_gen_object_groups", group.get_tmpl_gen_object_groups().map(|s| s.len()).unwrap_or(0));
                phase!("get_wx_gen_object_groups", group.get_wx_gen_object_groups().map(|s| s.len()).unwrap_or(0));
                phase!("get_runtime_string", group.get_runtime_string().len());
                phase!("export_globals", group.export_globals().map(|s| s.len()).unwrap_or(0));
                phase!("export_all_scripts", group.export_all_scripts().map(|s| s.len()).unwrap_or(0));
                phase!("stringify_tmpl", group.stringify_tmpl(path).map(|s| s.len()).unwrap_or(0));
                phase!(
                    "stringifier_mangled",
                    tmpl::stringify_with_map(&group, path, src, true, true).map(|s| s.0.len()).unwrap_or(0)
                );
                phase!("dependencies", {
                    let a = group.direct_dependencies(path).map(|x| x.count()).unwrap_or(0);
                    let b = group.script_dependencies(path).map(|x| x.count()).unwrap_or(0);
                    a + b
                });
                if let Err(p) = guarded("drop", move || drop(group)) {
                    failures.push(p);
                }
            }
            Err(p) => failures.push(p),
        }
    }
    let peak = alloc::peak().saturating_sub(base);
    alloc::set_caps(usize::MAX, usize::MAX);
    let st = monitor::disarm();
    let outcome = failures.first().map(classify).unwrap_or("ok");
    json!({
        "id": id,
        "n": n,
        "outcome": outcome,
        "failures": failures,
        "steps": {"parse": st.parse_steps, "gen": st.gen_steps, "print": st.print_steps, "css": st.css_steps, "append": st.append_steps},
        "peak": peak,
        "n_diag": n_diag,
        "max_warnings": st.max_warnings,
        "out_len": out_len,
        "pos_events": st.pos_events,
        "pos_desync": st.pos_desync.iter().map(|(k, i, got, want)| json!({"kind": k, "cur_index": i, "got": [got.0, got.1], "want": [want.0, want.1]})).collect::<Vec<_>>(),
        "col_events": st.col_events,
        "col_desync": st.col_desync.iter().map(|(k, got, want)| json!({"kind": k, "got": got, "want": want})).collect::<Vec<_>>(),
        "bad_diag": bad_diag,
    })
}
