//! gev: the Rust-side driver of the /verif runtime monitors.
//! JSONL on stdin -> `#BEGIN <id>` + JSONL on stdout (so that a process abort is attributed to one input).
mod alloc;
mod ast;
mod css;
mod monitor;
mod paths;
mod tmpl;
mod total;
mod util;

use serde_json::Value;
use std::io::{BufRead, Write};

#[global_allocator]
static GLOBAL: alloc::Counting = alloc::Counting;

fn main() {
    let mode = std::env::args().nth(1).unwrap_or_default();
    util::install_panic_hook();
    monitor::install_taps();
    if mode == "paths" {
        paths::run(std::env::args().skip(2).collect());
        return;
    }
    let stdin = std::io::stdin();
    let stdout = std::io::stdout();
    let mut out = std::io::BufWriter::new(stdout.lock());
    for line in stdin.lock().lines() {
        let Ok(line) = line else { break };
        if line.trim().is_empty() {
            continue;
        }
        let case: Value = match serde_json::from_str(&line) {
            Ok(v) => v,
            Err(e) => {
                writeln!(out, "{}", serde_json::json!({"harness_error": format!("bad json: {}", e)})).unwrap();
                continue;
            }
        };
        writeln!(out, "#BEGIN {}", case.get("id").cloned().unwrap_or(Value::Null)).unwrap();
        out.flush().unwrap();
        let res = match mode.as_str() {
            "tmpl" => {
                // the monitors stay armed in every mode: position sync and identifier checks are cheap
                let n: usize = case.get("files").and_then(|f| f.as_array()).map(|a| a.iter().map(|p| p[1].as_str().map(|s| s.len()).unwrap_or(0)).sum()).unwrap_or(0);
                monitor::arm(n * 8 + 4096, false, false, true);
                let mut r = tmpl::run_case(&case);
                let st = monitor::disarm();
                r["mon"] = serde_json::json!({"idents": st.idents, "reserved_idents": st.reserved_idents, "gen_steps": st.gen_steps, "parse_steps": st.parse_steps});
                r
            }
            "css" => {
                let n = case.get("css").and_then(|x| x.as_str()).map(|s| s.len()).unwrap_or(0);
                monitor::arm(n * 8 + 4096, false, true, false);
                let mut r = css::run_case(&case);
                let st = monitor::disarm();
                r["mon"] = serde_json::json!({
                    "col_events": st.col_events, "col_unchecked": st.col_unchecked,
                    "col_desync": st.col_desync.iter().map(|(k, got, want)| serde_json::json!({"kind": k, "got": got, "want": want})).collect::<Vec<_>>(),
                    "css_steps": st.css_steps,
                });
                r
            }
            "ast" => ast::run_case(&case),
            "total" => total::run_case(&case),
            _ => {
                eprintln!("usage: gev tmpl|css|ast|total|paths");
                std::process::exit(2);
            }
        };
        writeln!(out, "{}", res).unwrap();
        out.flush().unwrap();
    }
}
