//! `gev tmpl`: compile template groups and return every artefact + diagnostics.
use crate::util::guarded;
use glass_easel_template_compiler::parse::ParseError;
use glass_easel_template_compiler::stringify::{Stringifier, Stringify};
use glass_easel_template_compiler::TmplGroup;
use serde_json::{json, Map, Value};

pub fn diag_json(e: &ParseError) -> Value {
    json!({
        "code": e.code(),
        "kind": format!("{}", e.kind),
        "level": e.level() as u8,
        "loc": [e.location.start.line, e.location.start.utf16_col, e.location.end.line, e.location.end.utf16_col],
    })
}

fn want(w: &Value, k: &str) -> bool {
    match w {
        Value::Null => true,
        _ => w.get(k).and_then(|x| x.as_bool()).unwrap_or(false),
    }
}

pub fn stringify_with_map(
    group: &TmplGroup,
    path: &str,
    src: &str,
    mangling: bool,
    with_map: bool,
) -> Option<(String, Value)> {
    let tree = group.get_tree(path).ok()?;
    let mut s = Stringifier::new(String::new(), path, src);
    s.set_mangling(mangling);
    tree.stringify_write(&mut s).unwrap();
    let (out, sm) = s.finish();
    let mut toks = vec![];
    if with_map {
        for t in sm.tokens() {
            toks.push(json!([
                t.get_dst_line(),
                t.get_dst_col(),
                t.get_src_line(),
                t.get_src_col(),
                t.get_name(),
            ]));
        }
    }
    Some((out, Value::Array(toks)))
}

pub fn run_case(case: &Value) -> Value {
    let id = case.get("id").cloned().unwrap_or(Value::Null);
    let w = case.get("want").cloned().unwrap_or(Value::Null);
    let dev = case.get("dev").and_then(|x| x.as_bool()).unwrap_or(false);
    let files: Vec<(String, String)> = case
        .get("files")
        .and_then(|x| x.as_array())
        .map(|a| {
            a.iter()
                .map(|p| {
                    (
                        p[0].as_str().unwrap_or("").to_string(),
                        p[1].as_str().unwrap_or("").to_string(),
                    )
                })
                .collect()
        })
        .unwrap_or_default();
    let scripts: Vec<(String, String)> = case
        .get("scripts")
        .and_then(|x| x.as_array())
        .map(|a| {
            a.iter()
                .map(|p| {
                    (
                        p[0].as_str().unwrap_or("").to_string(),
                        p[1].as_str().unwrap_or("").to_string(),
                    )
                })
                .collect()
        })
        .unwrap_or_default();
    // `split`: files[split..] and scripts[script_split..] are added to a second group which is then imported
    let split = case.get("split").and_then(|x| x.as_u64()).map(|x| x as usize);
    let script_split = case
        .get("script_split")
        .and_then(|x| x.as_u64())
        .map(|x| x as usize)
        .unwrap_or(scripts.len());
    let extra_runtime = case.get("extra_runtime").and_then(|x| x.as_str());

    let mut panics: Vec<Value> = vec![];
    let mut out = Map::new();
    let mut files_out = Map::new();

    let mut group = if dev { TmplGroup::new_dev() } else { TmplGroup::new() };
    // `sub_other_mode`: the imported group was created in the other mode (dev / not dev); the destination's mode governs
    let sub_dev = dev != case.get("sub_other_mode").and_then(|x| x.as_bool()).unwrap_or(false);
    let mut sub = if sub_dev { TmplGroup::new_dev() } else { TmplGroup::new() };
    for (i, (path, src)) in files.iter().enumerate() {
        let target = match split {
            Some(k) if i >= k => &mut sub,
            _ => &mut group,
        };
        match guarded("add_tmpl", || target.add_tmpl(path, src)) {
            Ok(diags) => {
                let mut f = Map::new();
                f.insert("diags".into(), Value::Array(diags.iter().map(diag_json).collect()));
                files_out.insert(path.clone(), Value::Object(f));
            }
            Err(mut p) => {
                p["path"] = json!(path);
                panics.push(p);
            }
        }
    }
    for (i, (path, src)) in scripts.iter().enumerate() {
        if split.is_some() && i >= script_split {
            sub.add_script(path, src);
        } else {
            group.add_script(path, src);
        }
    }
    if let Some(x) = extra_runtime {
        group.set_extra_runtime_script(x);
    }
    // `set_inline`: [[path, module, content]...] applied through set_inline_script_content after the files were added
    if let Some(arr) = case.get("set_inline").and_then(|x| x.as_array()) {
        for it in arr {
            let (p, m, c) = (it[0].as_str().unwrap_or(""), it[1].as_str().unwrap_or(""), it[2].as_str().unwrap_or(""));
            let target = if group.get_tree(p).is_ok() { &mut group } else { &mut sub };
            if let Err(p) = guarded("set_inline_script_content", || target.set_inline_script_content(p, m, c).ok()) {
                panics.push(p);
            }
        }
    }
    if split.is_some() {
        if let Err(p) = guarded("import_group", || group.import_group(&sub)) {
            panics.push(p);
        }
    }

    for (path, src) in files.iter() {
        if !files_out.contains_key(path) {
            continue;
        }
        let mut f = files_out.remove(path).unwrap();
        let fo = f.as_object_mut().unwrap();
        if want(&w, "gen") {
            match guarded("get_tmpl_gen_object", || group.get_tmpl_gen_object(path)) {
                Ok(Ok(s)) => {
                    fo.insert("gen".into(), json!(s));
                }
                Ok(Err(e)) => {
                    fo.insert("gen_err".into(), json!(e.message));
                }
                Err(mut p) => {
                    p["path"] = json!(path);
                    panics.push(p);
                }
            }
        }
        if want(&w, "stringify") {
            match guarded("stringify_tmpl", || group.stringify_tmpl(path)) {
                Ok(s) => {
                    fo.insert("str".into(), json!(s));
                }
                Err(mut p) => {
                    p["path"] = json!(path);
                    panics.push(p);
                }
            }
        }
        if want(&w, "smap") || want(&w, "mangled") {
            for (key, mangling) in [("plain", false), ("mangled", true)] {
                if mangling && !want(&w, "mangled") {
                    continue;
                }
                if !mangling && !want(&w, "smap") {
                    continue;
                }
                match guarded("stringifier", || {
                    stringify_with_map(&group, path, src, mangling, want(&w, "smap"))
                }) {
                    Ok(Some((s, m))) => {
                        fo.insert(format!("str_{}", key), json!(s));
                        fo.insert(format!("smap_{}", key), m);
                    }
                    Ok(None) => {}
                    Err(mut p) => {
                        p["path"] = json!(path);
                        p["mangling"] = json!(mangling);
                        panics.push(p);
                    }
                }
            }
        }
        if want(&w, "deps") {
            match guarded("dependencies", || {
                let d: Vec<String> = group.direct_dependencies(path).map(|x| x.collect()).unwrap_or_default();
                let s: Vec<String> = group.script_dependencies(path).map(|x| x.collect()).unwrap_or_default();
                let names: Vec<String> = group
                    .inline_script_module_names(path)
                    .map(|x| x.map(|y| y.to_string()).collect())
                    .unwrap_or_default();
                let inl: Vec<Value> = names
                    .iter()
                    .map(|n| {
                        json!([
                            n,
                            group.inline_script_content(path, n).unwrap_or(""),
                            group.inline_script_start_line(path, n).unwrap_or(0)
                        ])
                    })
                    .collect();
                (d, s, inl)
            }) {
                Ok((d, s, inl)) => {
                    fo.insert("deps".into(), json!(d));
                    fo.insert("sdeps".into(), json!(s));
                    fo.insert("inline".into(), Value::Array(inl));
                }
                Err(mut p) => {
                    p["path"] = json!(path);
                    panics.push(p);
                }
            }
        }
        files_out.insert(path.clone(), f);
    }
    out.insert("files".into(), Value::Object(files_out));

    macro_rules! emit {
        ($key:expr, $phase:expr, $e:expr) => {
            if want(&w, $key) {
                match guarded($phase, || $e) {
                    Ok(Ok(s)) => {
                        out.insert($key.into(), json!(s));
                    }
                    Ok(Err(e)) => {
                        out.insert(format!("{}_err", $key), json!(e.message));
                    }
                    Err(p) => panics.push(p),
                }
            }
        };
    }
    emit!("groups", "get_tmpl_gen_object_groups", group.get_tmpl_gen_object_groups());
    emit!("wx", "get_wx_gen_object_groups", group.get_wx_gen_object_groups());
    emit!("globals", "export_globals", group.export_globals());
    emit!("all_scripts", "export_all_scripts", group.export_all_scripts());
    if want(&w, "runtime") {
        match guarded("get_runtime_string", || group.get_runtime_string()) {
            Ok(s) => {
                out.insert("runtime".into(), json!(s));
            }
            Err(p) => panics.push(p),
        }
    }
    out.insert("id".into(), id);
    out.insert("panics".into(), Value::Array(panics));
    Value::Object(out)
}
