//! `gev paths`: enumerate (base, rel) pairs and print what the group API reports for them (C13).
//! The expected values are computed by the monitor in /verif, not here.
use glass_easel_template_compiler::TmplGroup;
use std::io::Write;

fn seg_strings(alphabet: &[&str], max_segs: usize) -> Vec<String> {
    // all sequences of 1..=max_segs segments joined by '/'
    let mut out = vec![];
    let mut cur: Vec<Vec<&str>> = vec![vec![]];
    for _ in 0..max_segs {
        let mut next = vec![];
        for c in cur.iter() {
            for a in alphabet {
                let mut n = c.clone();
                n.push(*a);
                out.push(n.join("/"));
                next.push(n);
            }
        }
        cur = next;
    }
    out
}

pub fn run(args: Vec<String>) {
    // args: <max_segs> <shard> <nshards> [alphabet items...]
    let max_segs: usize = args.get(0).and_then(|x| x.parse().ok()).unwrap_or(3);
    let shard: usize = args.get(1).and_then(|x| x.parse().ok()).unwrap_or(0);
    let nshards: usize = args.get(2).and_then(|x| x.parse().ok()).unwrap_or(1);
    let alpha_owned: Vec<String> = if args.len() > 3 { args[3..].to_vec() } else { vec!["a".into(), "b".into(), ".".into(), "..".into(), "".into()] };
    let alphabet: Vec<&str> = alpha_owned.iter().map(|x| x.as_str()).collect();
    let bases = seg_strings(&alphabet, max_segs);
    let rels = seg_strings(&alphabet, max_segs);
    let stdout = std::io::stdout();
    let mut out = std::io::BufWriter::new(stdout.lock());
    let mut i = 0usize;
    for base in bases.iter() {
        for rel0 in rels.iter() {
            for lead in ["", "/"] {
                // suffix modes: 0 none, 1 the optional suffix, 2 the suffix twice (only one is optional),
                // 3 the other kind's suffix (not optional: `.wxs` on a template reference and vice versa)
                for suffix in [0, 1, 2, 3] {
                    i += 1;
                    if i % nshards != shard {
                        continue;
                    }
                    let rel = format!("{}{}", lead, rel0);
                    let (rw, rs) = match suffix {
                        1 => (format!("{}.wxml", rel), format!("{}.wxs", rel)),
                        2 => (format!("{}.wxml.wxml", rel), format!("{}.wxs.wxs", rel)),
                        3 => (format!("{}.wxs", rel), format!("{}.wxml", rel)),
                        _ => (rel.clone(), rel.clone()),
                    };
                    let src = format!(
                        "<import src=\"{}\"/><include src=\"{}\"/><wxs module=\"m\" src=\"{}\"/>",
                        rw, rw, rs
                    );
                    let mut g = TmplGroup::new();
                    g.add_tmpl(base, &src);
                    let deps: Vec<String> = g.direct_dependencies(base).map(|x| x.collect()).unwrap_or_default();
                    let sdeps: Vec<String> = g.script_dependencies(base).map(|x| x.collect()).unwrap_or_default();
                    writeln!(out, "{}\t{}\t{}\t{}\t{}", base, rel, suffix, serde_json::to_string(&deps).unwrap(), serde_json::to_string(&sdeps).unwrap()).unwrap();
                }
            }
        }
    }
}
