use serde_json::{json, Value};
use std::cell::RefCell;
use std::panic::{self, AssertUnwindSafe};

thread_local! {
    static LAST_PANIC: RefCell<Option<(String, String)>> = RefCell::new(None);
}

pub fn install_panic_hook() {
    panic::set_hook(Box::new(|info| {
        let loc = info
            .location()
            .map(|l| {
                let f = l.file();
                // keep the path relative to the repository so that witnesses are stable
                let f = f.rsplit_once("/repo/").map(|x| x.1).unwrap_or(f);
                format!("{}:{}", f, l.line())
            })
            .unwrap_or_else(|| "?".to_string());
        let msg = if let Some(s) = info.payload().downcast_ref::<&str>() {
            s.to_string()
        } else if let Some(s) = info.payload().downcast_ref::<String>() {
            s.clone()
        } else {
            "<non-string panic payload>".to_string()
        };
        LAST_PANIC.with(|p| *p.borrow_mut() = Some((loc, msg)));
    }));
}

/// Run `f`, catching a panic; on panic returns `Err({phase, site, msg})`.
pub fn guarded<R>(phase: &str, f: impl FnOnce() -> R) -> Result<R, Value> {
    LAST_PANIC.with(|p| *p.borrow_mut() = None);
    match panic::catch_unwind(AssertUnwindSafe(f)) {
        Ok(r) => Ok(r),
        Err(_) => {
            let (loc, msg) = LAST_PANIC
                .with(|p| p.borrow_mut().take())
                .unwrap_or_else(|| ("?".into(), "?".into()));
            Err(json!({"phase": phase, "site": loc, "msg": msg}))
        }
    }
}

pub fn num(v: f64) -> Value {
    if v.is_finite() {
        json!(v)
    } else {
        json!(format!("{}", v))
    }
}
