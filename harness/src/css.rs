//! `gev css`: run the stylesheet transformer; return outputs, warnings, source maps and
//! the cssparser token streams (with positions) of input and outputs.
use crate::util::{guarded, num};
use cssparser::{Parser, ParserInput, Token};
use glass_easel_stylesheet_compiler::{StyleSheetOptions, StyleSheetTransformer};
use serde_json::{json, Map, Value};

fn tok_json(t: &Token) -> Value {
    match t {
        Token::Ident(v) => json!({"k":"ident","v":&**v}),
        Token::AtKeyword(v) => json!({"k":"at","v":&**v}),
        Token::Hash(v) => json!({"k":"hash","v":&**v}),
        Token::IDHash(v) => json!({"k":"idhash","v":&**v}),
        Token::QuotedString(v) => json!({"k":"str","v":&**v}),
        Token::UnquotedUrl(v) => json!({"k":"url","v":&**v}),
        Token::Delim(c) => json!({"k":"delim","v":c.to_string()}),
        Token::Number { has_sign, value, int_value } => {
            json!({"k":"num","v":num(*value as f64),"int":int_value,"sign":has_sign})
        }
        Token::Percentage { has_sign, unit_value, int_value } => {
            json!({"k":"pct","v":num(*unit_value as f64),"int":int_value,"sign":has_sign})
        }
        Token::Dimension { has_sign, value, int_value, unit } => {
            json!({"k":"dim","v":num(*value as f64),"int":int_value,"sign":has_sign,"unit":&**unit})
        }
        Token::WhiteSpace(v) => json!({"k":"ws","v":*v}),
        Token::Comment(v) => json!({"k":"comment","v":*v}),
        Token::Colon => json!({"k":":"}),
        Token::Semicolon => json!({"k":";"}),
        Token::Comma => json!({"k":","}),
        Token::IncludeMatch => json!({"k":"~="}),
        Token::DashMatch => json!({"k":"|="}),
        Token::PrefixMatch => json!({"k":"^="}),
        Token::SuffixMatch => json!({"k":"$="}),
        Token::SubstringMatch => json!({"k":"*="}),
        Token::CDO => json!({"k":"cdo"}),
        Token::CDC => json!({"k":"cdc"}),
        Token::Function(v) => json!({"k":"func","v":&**v}),
        Token::ParenthesisBlock => json!({"k":"("}),
        Token::SquareBracketBlock => json!({"k":"["}),
        Token::CurlyBracketBlock => json!({"k":"{"}),
        Token::BadUrl(v) => json!({"k":"badurl","v":&**v}),
        Token::BadString(v) => json!({"k":"badstr","v":&**v}),
        Token::CloseParenthesis => json!({"k":")"}),
        Token::CloseSquareBracket => json!({"k":"]"}),
        Token::CloseCurlyBracket => json!({"k":"}"}),
    }
}

fn walk(p: &mut Parser, src: &str, out: &mut Vec<Value>, depth: usize) {
    loop {
        let loc = p.current_source_location();
        let start = p.position().byte_index();
        let tok = match p.next_including_whitespace_and_comments() {
            Ok(t) => t.clone(),
            Err(_) => break,
        };
        let end = p.position().byte_index();
        let mut j = tok_json(&tok);
        {
            let o = j.as_object_mut().unwrap();
            o.insert("l".into(), json!(loc.line));
            o.insert("c".into(), json!(loc.column - 1));
            o.insert("s".into(), json!(start));
            o.insert("e".into(), json!(end));
            o.insert("d".into(), json!(depth));
        }
        out.push(j);
        let close = match &tok {
            Token::Function(_) | Token::ParenthesisBlock => Some(")"),
            Token::SquareBracketBlock => Some("]"),
            Token::CurlyBracketBlock => Some("}"),
            _ => None,
        };
        if let Some(close) = close {
            let _ = p.parse_nested_block::<_, (), ()>(|p| {
                walk(p, src, out, depth + 1);
                Ok(())
            });
            let loc = p.current_source_location();
            let end = p.position().byte_index();
            if end > 0 && src.is_char_boundary(end - 1) && &src[end - 1..end] == close {
                out.push(json!({"k": close, "l": loc.line, "c": loc.column.saturating_sub(2), "s": end - 1, "e": end, "d": depth}));
            } else {
                out.push(json!({"k": "eof-close", "v": close, "s": end, "e": end, "d": depth}));
            }
        }
    }
}

pub fn tokenize(src: &str) -> Value {
    let mut input = ParserInput::new(src);
    let mut p = Parser::new(&mut input);
    let mut out = vec![];
    walk(&mut p, src, &mut out, 0);
    Value::Array(out)
}

pub fn options(o: &Value) -> StyleSheetOptions {
    let s = |k: &str| o.get(k).and_then(|x| x.as_str()).map(|x| x.to_string());
    let ratio = match o.get("rpx_ratio") {
        Some(Value::Number(n)) => n.as_f64().unwrap_or(750.) as f32,
        Some(Value::String(x)) => match x.as_str() {
            "NaN" => f32::NAN,
            "inf" => f32::INFINITY,
            "-inf" => f32::NEG_INFINITY,
            _ => x.parse().unwrap_or(750.),
        },
        _ => 750.,
    };
    StyleSheetOptions {
        class_prefix: s("class_prefix"),
        class_prefix_sign: s("class_prefix_sign"),
        rpx_ratio: ratio,
        import_sign: s("import_sign"),
        convert_host: o.get("convert_host").and_then(|x| x.as_bool()).unwrap_or(false),
        host_is: s("host_is"),
    }
}

pub struct CssResult {
    pub out: String,
    pub low: String,
    pub warnings: Vec<Value>,
    pub map: Value,
    pub low_map: Value,
    pub map_json: String,
    pub low_map_json: String,
}

pub fn transform(path: &str, css: &str, opts: StyleSheetOptions, with_maps: bool) -> CssResult {
    let map_of = |path: &str, css: &str, opts: StyleSheetOptions, low: bool| -> (Value, String) {
        // the outputs are consumed by the source-map extractors, so the transformation is re-run per extractor
        let pick = |t: StyleSheetTransformer| {
            let (a, b) = t.output_and_low_priority_output();
            if low { b } else { a }
        };
        let sm = pick(StyleSheetTransformer::from_css(path, css, opts.clone())).extract_source_map();
        let toks: Vec<Value> = sm
            .tokens()
            .map(|t| json!([t.get_dst_line(), t.get_dst_col(), t.get_src_line(), t.get_src_col(), t.get_name(), t.get_source()]))
            .collect();
        let mut buf = Vec::new();
        pick(StyleSheetTransformer::from_css(path, css, opts)).write_source_map(&mut buf).ok();
        (Value::Array(toks), String::from_utf8_lossy(&buf).to_string())
    };
    let mut t = StyleSheetTransformer::from_css(path, css, opts.clone());
    let warnings: Vec<Value> = t
        .take_warnings()
        .iter()
        .map(|e| {
            json!({
                "code": e.code(), "kind": format!("{}", e.kind), "level": e.level() as u8,
                "loc": [e.location.start.line, e.location.start.utf16_col, e.location.end.line, e.location.end.utf16_col],
            })
        })
        .collect();
    let (o, l) = t.output_and_low_priority_output();
    let mut out = String::new();
    o.write_str(&mut out).unwrap();
    let mut low = String::new();
    l.write_str(&mut low).unwrap();
    let (map, map_json, low_map, low_map_json) = if with_maps {
        let (m, mj) = map_of(path, css, opts.clone(), false);
        let (lm, lmj) = map_of(path, css, opts, true);
        (m, mj, lm, lmj)
    } else {
        (Value::Null, String::new(), Value::Null, String::new())
    };
    CssResult { out, low, warnings, map, low_map, map_json, low_map_json }
}

pub fn run_case(case: &Value) -> Value {
    let id = case.get("id").cloned().unwrap_or(Value::Null);
    let css = case.get("css").and_then(|x| x.as_str()).unwrap_or("");
    let path = case.get("path").and_then(|x| x.as_str()).unwrap_or("");
    let opts = options(case.get("opts").unwrap_or(&Value::Null));
    let with_maps = case.get("maps").and_then(|x| x.as_bool()).unwrap_or(true);
    let with_tokens = case.get("tokens").and_then(|x| x.as_bool()).unwrap_or(true);
    let mut o = Map::new();
    o.insert("id".into(), id);
    match guarded("transform_css", || transform(path, css, opts, with_maps)) {
        Ok(r) => {
            if with_tokens {
                // (a byte order mark is not a part of the text; the generator self-check reads the text)
                o.insert("tokens_in".into(), tokenize(css.strip_prefix('\u{feff}').unwrap_or(css)));
                o.insert("tokens_out".into(), tokenize(&r.out));
                o.insert("tokens_low".into(), tokenize(&r.low));
            }
            o.insert("out".into(), json!(r.out));
            o.insert("low".into(), json!(r.low));
            o.insert("warnings".into(), Value::Array(r.warnings));
            if with_maps {
                o.insert("map".into(), r.map);
                o.insert("low_map".into(), r.low_map);
                o.insert("map_json".into(), json!(r.map_json));
                o.insert("low_map_json".into(), json!(r.low_map_json));
            }
            o.insert("panics".into(), json!([]));
        }
        Err(p) => {
            o.insert("panics".into(), json!([p]));
        }
    }
    Value::Object(o)
}
