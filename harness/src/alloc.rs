//! Counting global allocator: live / peak heap bytes, with a soft cap flag and a hard cap.
use std::alloc::{GlobalAlloc, Layout, System};
use std::sync::atomic::{AtomicBool, AtomicUsize, Ordering};

pub struct Counting;

static LIVE: AtomicUsize = AtomicUsize::new(0);
static PEAK: AtomicUsize = AtomicUsize::new(0);
static SOFT_CAP: AtomicUsize = AtomicUsize::new(usize::MAX);
static HARD_CAP: AtomicUsize = AtomicUsize::new(usize::MAX);
static SOFT_HIT: AtomicBool = AtomicBool::new(false);

#[inline]
fn on_alloc(size: usize) {
    let live = LIVE.fetch_add(size, Ordering::Relaxed) + size;
    let mut peak = PEAK.load(Ordering::Relaxed);
    while live > peak {
        match PEAK.compare_exchange_weak(peak, live, Ordering::Relaxed, Ordering::Relaxed) {
            Ok(_) => break,
            Err(p) => peak = p,
        }
    }
    if live > SOFT_CAP.load(Ordering::Relaxed) {
        SOFT_HIT.store(true, Ordering::Relaxed);
    }
}

unsafe impl GlobalAlloc for Counting {
    unsafe fn alloc(&self, layout: Layout) -> *mut u8 {
        if LIVE.load(Ordering::Relaxed).saturating_add(layout.size()) > HARD_CAP.load(Ordering::Relaxed) {
            return std::ptr::null_mut();
        }
        let p = System.alloc(layout);
        if !p.is_null() {
            on_alloc(layout.size());
        }
        p
    }
    unsafe fn dealloc(&self, ptr: *mut u8, layout: Layout) {
        System.dealloc(ptr, layout);
        LIVE.fetch_sub(layout.size(), Ordering::Relaxed);
    }
    unsafe fn realloc(&self, ptr: *mut u8, layout: Layout, new_size: usize) -> *mut u8 {
        if new_size > layout.size()
            && LIVE.load(Ordering::Relaxed).saturating_add(new_size - layout.size())
                > HARD_CAP.load(Ordering::Relaxed)
        {
            return std::ptr::null_mut();
        }
        let p = System.realloc(ptr, layout, new_size);
        if !p.is_null() {
            if new_size >= layout.size() {
                on_alloc(new_size - layout.size());
            } else {
                LIVE.fetch_sub(layout.size() - new_size, Ordering::Relaxed);
            }
        }
        p
    }
}

pub fn live() -> usize {
    LIVE.load(Ordering::Relaxed)
}
/// Reset the peak to the current live size and clear the soft flag; returns the baseline.
pub fn reset_peak() -> usize {
    let l = LIVE.load(Ordering::Relaxed);
    PEAK.store(l, Ordering::Relaxed);
    SOFT_HIT.store(false, Ordering::Relaxed);
    l
}
pub fn peak() -> usize {
    PEAK.load(Ordering::Relaxed)
}
pub fn set_caps(soft: usize, hard: usize) {
    SOFT_CAP.store(soft, Ordering::Relaxed);
    HARD_CAP.store(hard, Ordering::Relaxed);
}
pub fn soft_hit() -> bool {
    SOFT_HIT.load(Ordering::Relaxed)
}
