//! `gev ast`: walk the public AST and emit every stored location (C16). Filled in below.
use serde_json::{json, Value};
pub fn run_case(case: &Value) -> Value {
    json!({"id": case.get("id").cloned().unwrap_or(Value::Null), "todo": true})
}
