//! `gev ast`: walk the public AST returned by `parse::parse` and emit every stored location as a tree of
//! located items (C16). The relations between an item and its source slice are checked by the monitor in
//! /verif/lib/js; this module only reports what the AST stores.
use crate::tmpl::diag_json;
use crate::util::guarded;
use glass_easel_template_compiler::parse::expr::{ArrayFieldKind, Expression, ObjectFieldKind};
use glass_easel_template_compiler::parse::tag::*;
use glass_easel_template_compiler::parse::{Position, TemplateStructure};
use serde_json::{json, Value as J};
use std::ops::Range;

fn loc(r: &Range<Position>) -> J {
    json!([r.start.line, r.start.utf16_col, r.end.line, r.end.utf16_col])
}

fn item(k: &str, l: &Range<Position>, extra: J, children: Vec<J>) -> J {
    let mut o = json!({"k": k, "loc": loc(l), "children": children});
    if let (Some(o), Some(e)) = (o.as_object_mut(), extra.as_object()) {
        for (k, v) in e {
            o.insert(k.clone(), v.clone());
        }
    }
    o
}

fn tok(k: &str, l: &Range<Position>, text: &str) -> J {
    json!({"k": k, "loc": loc(l), "text": text, "children": []})
}

thread_local! {
    /// iterator monitor (mode `ast` with "iters": true): the public child iterators must yield each direct
    /// child exactly once, in field order, and the `_mut` variants the same places (written through).
    static ITERS_ON: std::cell::Cell<bool> = std::cell::Cell::new(false);
    static ITERS_ELEM_MUT: std::cell::Cell<bool> = std::cell::Cell::new(true);
    static ESTACK: std::cell::RefCell<Vec<Vec<usize>>> = std::cell::RefCell::new(vec![]);
    static ITER_VIOL: std::cell::RefCell<Vec<String>> = std::cell::RefCell::new(vec![]);
    static ITER_COUNTS: std::cell::Cell<(u64, u64, u64)> = std::cell::Cell::new((0, 0, 0));
}

fn iter_viol(s: String) {
    ITER_VIOL.with(|v| {
        let mut v = v.borrow_mut();
        if v.len() < 8 {
            v.push(s)
        }
    });
}

fn expr(e: &Expression) -> J {
    if !ITERS_ON.with(|x| x.get()) {
        return expr_inner(e);
    }
    ESTACK.with(|s| s.borrow_mut().push(vec![]));
    let j = expr_inner(e);
    let mine = ESTACK.with(|s| s.borrow_mut().pop().unwrap_or_default());
    let via: Vec<usize> = e.sub_expressions().map(|x| x as *const Expression as usize).collect();
    if mine != via {
        iter_viol(format!("sub_expressions() of {:?} yields {} item(s), the fields hold {}", std::mem::discriminant(e), via.len(), mine.len()));
    }
    let mut c = e.clone();
    let shared: Vec<usize> = c.sub_expressions().map(|x| x as *const Expression as usize).collect();
    let mut muts: Vec<usize> = vec![];
    for sub in c.sub_expressions_mut() {
        muts.push(sub as *mut Expression as usize);
        let t = sub.clone();
        *sub = t;
    }
    if shared != muts {
        iter_viol(format!("sub_expressions_mut() of {:?} differs from sub_expressions(): {} vs {}", std::mem::discriminant(e), muts.len(), shared.len()));
    }
    ITER_COUNTS.with(|k| {
        let (a, b, c2) = k.get();
        k.set((a + 1, b + via.len() as u64, c2))
    });
    ESTACK.with(|s| {
        if let Some(p) = s.borrow_mut().last_mut() {
            p.push(e as *const Expression as usize)
        }
    });
    j
}

fn check_element_iters(e: &Element) {
    let direct: Vec<usize> = match &e.kind {
        ElementKind::Normal { children, .. } | ElementKind::Pure { children, .. } | ElementKind::For { children, .. } => children.iter().map(|x| x as *const Node as usize).collect(),
        ElementKind::If { branches, else_branch, .. } => branches.iter().flat_map(|b| b.2.iter()).chain(else_branch.iter().flat_map(|b| b.1.iter())).map(|x| x as *const Node as usize).collect(),
        _ => vec![],
    };
    let it = e.iter_children();
    let hint = it.size_hint();
    let via: Vec<usize> = it.map(|x| x as *const Node as usize).collect();
    if direct != via {
        iter_viol(format!("iter_children() yields {} node(s), the fields hold {}", via.len(), direct.len()));
    }
    if hint.0 > via.len() || hint.1.map(|h| h < via.len()).unwrap_or(false) {
        iter_viol(format!("iter_children().size_hint() = {:?} but {} node(s) are yielded", hint, via.len()));
    }
    if !ITERS_ELEM_MUT.with(|x| x.get()) {
        ITER_COUNTS.with(|k| {
            let (a, b, c2) = k.get();
            k.set((a, b, c2 + 1))
        });
        return;
    }
    let mut c = e.clone();
    let shared: Vec<usize> = c.iter_children().map(|x| x as *const Node as usize).collect();
    let mut muts: Vec<usize> = vec![];
    for n in c.iter_children_mut() {
        muts.push(n as *mut Node as usize);
        let t = n.clone();
        *n = t;
    }
    if shared != muts {
        iter_viol(format!("iter_children_mut() differs from iter_children(): {} vs {}", muts.len(), shared.len()));
    }
    ITER_COUNTS.with(|k| {
        let (a, b, c2) = k.get();
        k.set((a, b, c2 + 1))
    });
}

fn expr_inner(e: &Expression) -> J {
    let l = e.location();
    macro_rules! bin {
        ($op:expr, $left:expr, $right:expr, $loc:expr) => {
            item("binary", &l, json!({"op": $op, "computed": true}), vec![expr($left), tok("op", $loc, $op), expr($right)])
        };
    }
    macro_rules! un {
        ($op:expr, $value:expr, $loc:expr) => {
            // the stored `location` is the operator's; the node spans the operator and its operand
            item("unary", &l, json!({"op": $op, "computed": true}), vec![tok("op", $loc, $op), expr($value)])
        };
    }
    match e {
        Expression::ScopeRef { location, index } => item("scope_ref", location, json!({"index": index}), vec![]),
        Expression::DataField { name, location } => item("data_field", location, json!({"name": name.as_str()}), vec![]),
        Expression::ToStringWithoutUndefined { value, location } => {
            item("to_string", location, json!({"synthetic": true}), vec![]).as_object().map(|o| { let mut o = o.clone(); o.insert("operand".into(), expr(value)); J::Object(o) }).unwrap()
        }
        Expression::LitUndefined { location } => tok("keyword", location, "undefined"),
        Expression::LitNull { location } => tok("keyword", location, "null"),
        Expression::LitStr { value, location } => item("lit_str", location, json!({"value": value.as_str()}), vec![]),
        Expression::LitInt { value, location } => item("lit_num", location, json!({"value": *value as f64, "int": value.to_string()}), vec![]),
        Expression::LitFloat { value, location } => item("lit_num", location, json!({"value": if value.is_finite() { json!(value) } else { json!(value.to_string()) }}), vec![]),
        Expression::LitBool { value, location } => tok("keyword", location, if *value { "true" } else { "false" }),
        Expression::LitObj { fields, brace_location } => {
            let mut ch = vec![tok("bracket", &brace_location.0, "{")];
            for f in fields {
                match f {
                    ObjectFieldKind::Named { name, location, colon_location, value } => {
                        ch.push(item("obj_key", location, json!({"name": name.as_str()}), vec![]));
                        if let Some(c) = colon_location {
                            ch.push(tok("op", c, ":"));
                            ch.push(expr(value));
                        } else if ITERS_ON.with(|x| x.get()) {
                            // shorthand `{a}`: the value has no source text of its own, but it is a sub-expression
                            ESTACK.with(|s| {
                                if let Some(p) = s.borrow_mut().last_mut() {
                                    p.push(value as *const Expression as usize)
                                }
                            });
                        }
                    }
                    ObjectFieldKind::Spread { location, value } => {
                        ch.push(tok("op", location, "..."));
                        ch.push(expr(value));
                    }
                }
            }
            ch.push(tok("bracket", &brace_location.1, "}"));
            item("lit_obj", &l, json!({"computed": true, "implicit_braces": brace_location.0.start == brace_location.0.end}), ch)
        }
        Expression::LitArr { fields, bracket_location } => {
            let mut ch = vec![tok("bracket", &bracket_location.0, "[")];
            for f in fields {
                match f {
                    ArrayFieldKind::Normal { value } => ch.push(expr(value)),
                    ArrayFieldKind::Spread { location, value } => {
                        ch.push(tok("op", location, "..."));
                        ch.push(expr(value));
                    }
                    ArrayFieldKind::EmptySlot => {}
                }
            }
            ch.push(tok("bracket", &bracket_location.1, "]"));
            item("lit_arr", &l, json!({"computed": true}), ch)
        }
        Expression::StaticMember { obj, field_name, dot_location, field_location } => item(
            "static_member",
            &l,
            json!({"computed": true}),
            vec![expr(obj), tok("op", dot_location, "."), item("member_name", field_location, json!({"name": field_name.as_str()}), vec![])],
        ),
        Expression::DynamicMember { obj, field_name, bracket_location } => item(
            "dynamic_member",
            &l,
            json!({"computed": true}),
            vec![expr(obj), tok("bracket", &bracket_location.0, "["), expr(field_name), tok("bracket", &bracket_location.1, "]")],
        ),
        Expression::FuncCall { func, args, paren_location } => {
            let mut ch = vec![expr(func), tok("bracket", &paren_location.0, "(")];
            for a in args {
                ch.push(expr(a));
            }
            ch.push(tok("bracket", &paren_location.1, ")"));
            item("call", &l, json!({"computed": true}), ch)
        }
        Expression::Reverse { value, location } => un!("!", value, location),
        Expression::BitReverse { value, location } => un!("~", value, location),
        Expression::Positive { value, location } => un!("+", value, location),
        Expression::Negative { value, location } => un!("-", value, location),
        Expression::TypeOf { value, location } => un!("typeof", value, location),
        Expression::Void { value, location } => un!("void", value, location),
        Expression::Multiply { left, right, location } => bin!("*", left, right, location),
        Expression::Divide { left, right, location } => bin!("/", left, right, location),
        Expression::Remainer { left, right, location } => bin!("%", left, right, location),
        Expression::Plus { left, right, location } => bin!("+", left, right, location),
        Expression::Minus { left, right, location } => bin!("-", left, right, location),
        Expression::LeftShift { left, right, location } => bin!("<<", left, right, location),
        Expression::RightShift { left, right, location } => bin!(">>", left, right, location),
        Expression::UnsignedRightShift { left, right, location } => bin!(">>>", left, right, location),
        Expression::Lt { left, right, location } => bin!("<", left, right, location),
        Expression::Gt { left, right, location } => bin!(">", left, right, location),
        Expression::Lte { left, right, location } => bin!("<=", left, right, location),
        Expression::Gte { left, right, location } => bin!(">=", left, right, location),
        Expression::InstanceOf { left, right, location } => bin!("instanceof", left, right, location),
        Expression::Eq { left, right, location } => bin!("==", left, right, location),
        Expression::Ne { left, right, location } => bin!("!=", left, right, location),
        Expression::EqFull { left, right, location } => bin!("===", left, right, location),
        Expression::NeFull { left, right, location } => bin!("!==", left, right, location),
        Expression::BitAnd { left, right, location } => bin!("&", left, right, location),
        Expression::BitXor { left, right, location } => bin!("^", left, right, location),
        Expression::BitOr { left, right, location } => bin!("|", left, right, location),
        Expression::LogicAnd { left, right, location } => bin!("&&", left, right, location),
        Expression::LogicOr { left, right, location } => bin!("||", left, right, location),
        Expression::NullishCoalescing { left, right, location } => bin!("??", left, right, location),
        Expression::Cond { cond, true_br, false_br, question_location, colon_location } => item(
            "cond",
            &l,
            json!({"computed": true}),
            vec![expr(cond), tok("op", question_location, "?"), expr(true_br), tok("op", colon_location, ":"), expr(false_br)],
        ),
        #[allow(unreachable_patterns)]
        _ => json!({"k": "unclassified-expression", "children": []}),
    }
}

fn value(v: &Value, ctx: &str) -> J {
    match v {
        Value::Static { value, location, .. } => item("static_value", location, json!({"value": value.as_str(), "ctx": ctx}), vec![]),
        Value::Dynamic { expression, double_brace_location, .. } => item(
            "dynamic_value",
            &v.location(),
            json!({"ctx": ctx}),
            vec![tok("bracket", &double_brace_location.0, "{{"), expr(expression), tok("bracket", &double_brace_location.1, "}}")],
        ),
        #[allow(unreachable_patterns)]
        _ => json!({"k": "unclassified-value", "children": []}),
    }
}

fn ident(k: &str, i: &Ident, extra: J) -> J {
    let mut e = json!({"name": i.name.as_str()});
    if let (Some(o), Some(x)) = (e.as_object_mut(), extra.as_object()) {
        for (k, v) in x {
            o.insert(k.clone(), v.clone());
        }
    }
    item(k, &i.location, e, vec![])
}

fn str_name(k: &str, s: &StrName, extra: J) -> J {
    let mut e = json!({"value": s.name.as_str()});
    if let (Some(o), Some(x)) = (e.as_object_mut(), extra.as_object()) {
        for (k, v) in x {
            o.insert(k.clone(), v.clone());
        }
    }
    item(k, &s.location, e, vec![])
}

fn attr_item(fam: &str, prefix_location: Option<&Range<Position>>, name: &Ident, v: Option<&Value>) -> J {
    let mut ch = vec![];
    if let Some(p) = prefix_location {
        ch.push(json!({"k": "attr_prefix", "loc": loc(p), "fam": fam, "children": []}));
    }
    ch.push(ident("attr_name", name, json!({"fam": fam})));
    if let Some(v) = v {
        ch.push(value(v, "attr"));
    }
    json!({"k": "attr", "fam": fam, "children": ch})
}

fn static_attr_item(fam: &str, a: &StaticAttribute) -> J {
    let mut ch = vec![];
    if let Some(p) = a.prefix_location.as_ref() {
        ch.push(json!({"k": "attr_prefix", "loc": loc(p), "fam": fam, "children": []}));
    }
    ch.push(ident("attr_name", &a.name, json!({"fam": fam})));
    ch.push(str_name("static_attr_value", &a.value, json!({"fam": fam})));
    json!({"k": "attr", "fam": fam, "children": ch})
}

fn named_value(fam: &str, name_loc: &Range<Position>, v: &Value) -> J {
    json!({"k": "attr", "fam": fam, "children": [json!({"k": "attr_name_span", "loc": loc(name_loc), "fam": fam, "children": []}), value(v, "attr")]})
}

fn common(c: &CommonElementAttributes, out: &mut Vec<J>) {
    if let Some((l, v)) = c.id.as_ref() {
        out.push(named_value("id", l, v));
    }
    if let Some((l, v)) = c.slot.as_ref() {
        out.push(named_value("slot", l, v));
    }
    for a in c.slot_value_refs.iter() {
        out.push(static_attr_item("slot-value", a));
    }
    for e in c.event_bindings.iter() {
        let fam = match (e.is_catch, e.is_mut, e.is_capture) {
            (false, false, false) => "bind",
            (true, _, false) => "catch",
            (false, true, false) => "mut-bind",
            (false, false, true) => "capture-bind",
            (true, _, true) => "capture-catch",
            (false, true, true) => "capture-mut-bind",
        };
        out.push(attr_item(fam, Some(&e.prefix_location), &e.name, e.value.as_ref()));
    }
    for a in c.data.iter() {
        out.push(attr_item("data", a.prefix_location.as_ref(), &a.name, a.value.as_ref()));
    }
    for a in c.marks.iter() {
        out.push(attr_item("mark", a.prefix_location.as_ref(), &a.name, a.value.as_ref()));
    }
}

fn tag_location(t: &TagLocation) -> J {
    json!({
        "start_open": loc(&t.start.0), "start_close": loc(&t.start.1), "close": loc(&t.close),
        "end": t.end.as_ref().map(|(a, b)| json!([loc(a), loc(b)])),
    })
}

fn nodes(list: &[Node]) -> Vec<J> {
    list.iter().map(node).collect()
}

fn node(n: &Node) -> J {
    match n {
        Node::Text(v) => value(v, "text"),
        Node::Comment(c) => item("comment", &c.location, json!({"content": c.content}), vec![]),
        Node::UnknownMetaTag(t) => item("meta", &t.location, json!({}), vec![]),
        Node::Element(e) => element(e),
        #[allow(unreachable_patterns)]
        _ => json!({"k": "unclassified-node", "children": []}),
    }
}

fn element(e: &Element) -> J {
    if ITERS_ON.with(|x| x.get()) {
        check_element_iters(e);
    }
    let l = e.location();
    let tl = tag_location(&e.tag_location);
    let mut attrs: Vec<J> = vec![];
    let mut kids: Vec<J> = vec![];
    let kind;
    let mut extra = json!({});
    match &e.kind {
        ElementKind::Normal { tag_name, attributes, class, style, change_attributes, worklet_attributes, children, generics, extra_attr, common: c, .. } => {
            kind = "normal";
            attrs.push(ident("tag_name", tag_name, json!({})));
            for a in attributes {
                match &a.prefix {
                    NormalAttributePrefix::None => attrs.push(attr_item("plain", None, &a.name, a.value.as_ref())),
                    NormalAttributePrefix::Model(p) => attrs.push(attr_item("model", Some(p), &a.name, a.value.as_ref())),
                }
            }
            if let ClassAttribute::String(l, v) = class {
                attrs.push(named_value("class", l, v));
            }
            if let StyleAttribute::String(l, v) = style {
                attrs.push(named_value("style", l, v));
            }
            for a in change_attributes {
                attrs.push(attr_item("change", a.prefix_location.as_ref(), &a.name, a.value.as_ref()));
            }
            for a in worklet_attributes {
                attrs.push(static_attr_item("worklet", a));
            }
            for a in generics {
                attrs.push(static_attr_item("generic", a));
            }
            for a in extra_attr {
                attrs.push(static_attr_item("extra-attr", a));
            }
            common(c, &mut attrs);
            kids = nodes(children);
        }
        ElementKind::Pure { children, slot, slot_value_refs, .. } => {
            kind = "pure";
            if let Some((l, v)) = slot.as_ref() {
                attrs.push(named_value("slot", l, v));
            }
            for a in slot_value_refs {
                attrs.push(static_attr_item("slot-value", a));
            }
            kids = nodes(children);
        }
        ElementKind::For { list, item_name, index_name, key, children, .. } => {
            kind = "for";
            attrs.push(named_value("wx:for", &list.0, &list.1));
            extra = json!({
                "item": {"name_loc": loc(&item_name.0), "value": item_name.1.name.as_str(), "value_loc": loc(&item_name.1.location)},
                "index": {"name_loc": loc(&index_name.0), "value": index_name.1.name.as_str(), "value_loc": loc(&index_name.1.location)},
                "key": {"name_loc": loc(&key.0), "value": key.1.name.as_str(), "value_loc": loc(&key.1.location)},
            });
            kids = nodes(children);
        }
        ElementKind::If { branches, else_branch, .. } => {
            kind = "if";
            for (l, v, children) in branches {
                kids.push(json!({"k": "branch", "cond": named_value("wx:if", l, v), "children": nodes(children)}));
            }
            if let Some((l, children)) = else_branch {
                kids.push(json!({"k": "branch", "else_loc": loc(l), "children": nodes(children)}));
            }
        }
        ElementKind::TemplateRef { target, data, .. } => {
            kind = "template_ref";
            attrs.push(named_value("is", &target.0, &target.1));
            attrs.push(named_value("data", &data.0, &data.1));
        }
        ElementKind::Include { path, .. } => {
            kind = "include";
            attrs.push(json!({"k": "attr", "fam": "src", "children": [json!({"k": "attr_name_span", "loc": loc(&path.0), "fam": "src", "children": []}), str_name("static_attr_value", &path.1, json!({"fam": "src"}))]}));
        }
        ElementKind::Slot { name, values, common: c, .. } => {
            kind = "slot";
            attrs.push(named_value("name", &name.0, &name.1));
            for a in values {
                attrs.push(attr_item("slot-attr", a.prefix_location.as_ref(), &a.name, a.value.as_ref()));
            }
            common(c, &mut attrs);
        }
        #[allow(unreachable_patterns)]
        _ => {
            kind = "unclassified-element";
        }
    }
    let mut o = item("element", &l, json!({"kind": kind, "tag_location": tl, "attrs": attrs}), kids);
    if let (Some(o), Some(x)) = (o.as_object_mut(), extra.as_object()) {
        for (k, v) in x {
            o.insert(k.clone(), v.clone());
        }
    }
    o
}

pub fn run_case(case: &J) -> J {
    let id = case.get("id").cloned().unwrap_or(J::Null);
    let src = case.get("src").and_then(|x| x.as_str()).unwrap_or("");
    let path = case.get("path").and_then(|x| x.as_str()).unwrap_or("p");
    let iters = case.get("iters").and_then(|x| x.as_bool()).unwrap_or(false);
    ITERS_ON.with(|x| x.set(iters));
    ITERS_ELEM_MUT.with(|x| x.set(case.get("iters_elem_mut").and_then(|x| x.as_bool()).unwrap_or(true)));
    ESTACK.with(|s| s.borrow_mut().clear());
    ITER_VIOL.with(|s| s.borrow_mut().clear());
    ITER_COUNTS.with(|k| k.set((0, 0, 0)));
    match guarded("parse", || {
        let (t, ps) = glass_easel_template_compiler::parse::parse(path, src);
        let diags: Vec<J> = ps.warnings().map(diag_json).collect();
        let g = &t.globals;
        let imports: Vec<J> = g.imports.iter().map(|i| json!({"k": "import", "tag_location": tag_location(&i.tag_location), "children": [json!({"k": "attr_name_span", "loc": loc(&i.src_location), "fam": "src", "children": []}), str_name("static_attr_value", &i.src, json!({"fam": "src"}))]})).collect();
        let includes: Vec<J> = g.includes.iter().map(|i| json!({"k": "include_decl", "tag_location": tag_location(&i.tag_location), "children": [str_name("static_attr_value", &i.src, json!({"fam": "src"}))]})).collect();
        let scripts: Vec<J> = g
            .scripts
            .iter()
            .map(|s| match s {
                Script::Inline { tag_location: tl, module_location, module_name, content, content_location, .. } => json!({
                    "k": "script", "inline": true, "tag_location": tag_location(tl), "module_attr_loc": loc(module_location),
                    "children": [str_name("static_attr_value", module_name, json!({"fam": "module"})), item("script_content", content_location, json!({"content": content}), vec![])],
                }),
                Script::GlobalRef { tag_location: tl, module_location, module_name, src_location, src, .. } => json!({
                    "k": "script", "inline": false, "tag_location": tag_location(tl), "module_attr_loc": loc(module_location), "src_attr_loc": loc(src_location),
                    "children": [str_name("static_attr_value", module_name, json!({"fam": "module"})), str_name("static_attr_value", src, json!({"fam": "src"}))],
                }),
                #[allow(unreachable_patterns)]
                _ => json!({"k": "unclassified-script", "children": []}),
            })
            .collect();
        let subs: Vec<J> = g
            .sub_templates
            .iter()
            .map(|d| json!({"k": "template_def", "tag_location": tag_location(&d.tag_location), "name_attr_loc": loc(&d.name_location), "name": str_name("static_attr_value", &d.name, json!({"fam": "name"})), "children": nodes(&d.content)}))
            .collect();
        json!({"diags": diags, "imports": imports, "includes": includes, "scripts": scripts, "sub_templates": subs, "content": nodes(&t.content)})
    }) {
        Ok(mut r) => {
            r["id"] = id;
            if iters {
                let (ne, ns, nel) = ITER_COUNTS.with(|k| k.get());
                r["iters"] = json!({"violations": ITER_VIOL.with(|v| v.borrow().clone()), "expressions": ne, "sub_expressions": ns, "elements": nel});
                if case.get("tree").and_then(|x| x.as_bool()) == Some(false) {
                    for k in ["imports", "includes", "scripts", "sub_templates", "content"] {
                        r.as_object_mut().map(|o| o.remove(k));
                    }
                }
            }
            r["panics"] = json!([]);
            r
        }
        Err(p) => json!({"id": id, "panics": [p]}),
    }
}
