//! Monitors over the event taps of both compilers (the repository only emits events).
use std::cell::RefCell;

#[derive(Default, Clone, Debug)]
pub struct State {
    pub armed: bool,
    pub input_len: usize,
    // logical clocks
    pub parse_steps: u64,
    pub gen_steps: u64,
    pub print_steps: u64,
    pub css_steps: u64,
    pub append_steps: u64,
    pub idents: u64,
    pub step_budget: u64,
    // stall detection (template parser)
    pub max_index: usize,
    pub ticks_since_advance: u64,
    pub stall_limit: u64,
    pub last_kinds: [&'static str; 4],
    // stall detection (stylesheet tokenizer)
    pub css_max_pos: (u32, u32),
    pub css_ticks_since_advance: u64,
    // diagnostics growth
    pub max_warnings: usize,
    // position-sync monitor
    pub pos_check: bool,
    pub pos_cache: (usize, u32, u32),
    pub pos_events: u64,
    pub pos_desync: Vec<(String, usize, (u32, u32), (u32, u32))>,
    // output column monitor
    pub col_check: bool,
    pub col_events: u64,
    pub col_unchecked: u64,
    pub col_desync: Vec<(String, u32, u32)>,
    // identifiers that collide with reserved words (informational, C02)
    pub reserved_idents: Vec<String>,
    pub check_idents: bool,
}

thread_local! {
    pub static ST: RefCell<State> = RefCell::new(State::default());
}

const RESERVED: &[&str] = &[
    "do", "if", "in", "for", "let", "new", "try", "var", "case", "else", "enum", "eval", "null", "this", "true",
    "void", "with", "await", "break", "catch", "class", "const", "false", "super", "throw", "while", "yield",
    "delete", "export", "import", "public", "return", "static", "switch", "typeof", "default", "extends",
    "finally", "package", "private", "continue", "debugger", "function", "arguments", "interface", "protected",
    "implements", "instanceof", "NaN", "Infinity", "undefined", "of", "as", "async", "get", "set",
];

pub fn arm(input_len: usize, pos_check: bool, col_check: bool, check_idents: bool) {
    ST.with(|s| {
        let mut s = s.borrow_mut();
        *s = State::default();
        s.armed = true;
        s.input_len = input_len;
        let n = input_len as u64 + 64;
        s.step_budget = 200 * n * n + 2_000_000;
        s.stall_limit = 100_000 + 64 * n;
        s.pos_check = pos_check;
        s.col_check = col_check;
        s.check_idents = check_idents;
    });
}

pub fn disarm() -> State {
    ST.with(|s| {
        let mut s = s.borrow_mut();
        s.armed = false;
        s.clone()
    })
}

fn utf16_advance(text: &str, mut line: u32, mut col: u32) -> (u32, u32) {
    for ch in text.chars() {
        if ch == '\n' {
            line += 1;
            col = 0;
        } else {
            col += ch.len_utf16() as u32;
        }
    }
    (line, col)
}

fn tick_total(s: &mut State) {
    let total = s.parse_steps + s.gen_steps + s.print_steps + s.css_steps + s.append_steps;
    if total > s.step_budget {
        s.armed = false;
        panic!("VERIF-FUEL steps={} budget={} (last parser primitives: {:?})", total, s.step_budget, s.last_kinds);
    }
    if crate::alloc::soft_hit() {
        s.armed = false;
        panic!("VERIF-ALLOC live heap exceeded the soft cap (peak={})", crate::alloc::peak());
    }
}

pub fn install_taps() {
    use glass_easel_stylesheet_compiler::verif as cv;
    use glass_easel_template_compiler::verif as tv;
    tv::set_tap(Box::new(|ev| {
        ST.with(|s| {
            let Ok(mut s) = s.try_borrow_mut() else { return };
            if !s.armed {
                return;
            }
            match ev {
                tv::Event::ParseStep { kind, cur_index, len: _, weight, n_warnings } => {
                    s.parse_steps += *weight as u64;
                    s.last_kinds.rotate_left(1);
                    s.last_kinds[3] = kind;
                    if *n_warnings > s.max_warnings {
                        s.max_warnings = *n_warnings;
                    }
                    if *cur_index > s.max_index {
                        s.max_index = *cur_index;
                        s.ticks_since_advance = 0;
                    } else {
                        s.ticks_since_advance += 1;
                        if s.ticks_since_advance > s.stall_limit {
                            s.armed = false;
                            panic!(
                                "VERIF-STALL {} parser ticks without progress at byte {} (last primitives: {:?}, warnings so far: {})",
                                s.ticks_since_advance, cur_index, s.last_kinds, n_warnings
                            );
                        }
                    }
                    tick_total(&mut s);
                }
                tv::Event::Pos { kind, whole, cur_index, line, utf16_col } => {
                    if s.pos_check {
                        s.pos_events += 1;
                        let (ci, cl, cc) = s.pos_cache;
                        let (wl, wc) = if *cur_index >= ci && whole.is_char_boundary(ci) && whole.is_char_boundary(*cur_index) {
                            utf16_advance(&whole[ci..*cur_index], cl, cc)
                        } else if whole.is_char_boundary(*cur_index) {
                            utf16_advance(&whole[..*cur_index], 0, 0)
                        } else {
                            (u32::MAX, u32::MAX)
                        };
                        s.pos_cache = (*cur_index, wl, wc);
                        if (wl, wc) != (*line, *utf16_col) && s.pos_desync.len() < 4 {
                            s.pos_desync.push((kind.to_string(), *cur_index, (*line, *utf16_col), (wl, wc)));
                        }
                    }
                }
                tv::Event::GenStep => {
                    s.gen_steps += 1;
                    tick_total(&mut s);
                }
                tv::Event::GenIdent { name } => {
                    s.idents += 1;
                    if s.check_idents && RESERVED.contains(name) && s.reserved_idents.len() < 8 {
                        s.reserved_idents.push(name.to_string());
                    }
                }
                tv::Event::PrintStep { len } => {
                    s.print_steps += 1 + (*len as u64) / 16;
                    tick_total(&mut s);
                }
            }
        })
    }));
    cv::set_tap(Box::new(|ev| {
        ST.with(|s| {
            let Ok(mut s) = s.try_borrow_mut() else { return };
            if !s.armed {
                return;
            }
            match ev {
                cv::Event::CssStep { kind: _, line, utf16_col } => {
                    s.css_steps += 1;
                    if (*line, *utf16_col) > s.css_max_pos {
                        s.css_max_pos = (*line, *utf16_col);
                        s.css_ticks_since_advance = 0;
                    } else {
                        s.css_ticks_since_advance += 1;
                        if s.css_ticks_since_advance > s.stall_limit {
                            s.armed = false;
                            panic!(
                                "VERIF-STALL {} tokenizer ticks without progress at {}:{}",
                                s.css_ticks_since_advance, line, utf16_col
                            );
                        }
                    }
                    tick_total(&mut s);
                }
                cv::Event::CssAppend { kind, utf16_len, out } => {
                    s.append_steps += 1;
                    if s.col_check {
                        if out.len() <= 8192 {
                            s.col_events += 1;
                            let real = out.encode_utf16().count() as u32;
                            if real != *utf16_len && s.col_desync.len() < 4 {
                                s.col_desync.push((kind.to_string(), *utf16_len, real));
                            }
                        } else {
                            s.col_unchecked += 1;
                        }
                    }
                    tick_total(&mut s);
                }
            }
        })
    }));
}
