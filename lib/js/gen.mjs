// Generation contexts shared by the template-executing drivers: visible names, scope stack,
// list expressions, data environments, file sets.
import * as X from './expr.mjs'
import * as M from './tmodel.mjs'
import { fn, fn2, Ctor, edgeValue as edgeValueAll, edgeValueSmall } from './values.mjs'

export const DATA_NAMES = ['a', 'b', 'c', 'd', 'e', 'f']

export class GenCtx {
  constructor(opts = {}) {
    this.dataNames = opts.dataNames || DATA_NAMES
    this.scopes = [...(opts.moduleNames || [])]
    this.moduleNames = opts.moduleNames || []
    this.maxDepth = opts.maxDepth ?? 3
    this.defNames = opts.defNames || []
    this.defFields = opts.defFields || ['a', 'b', 'c']
    this.includes = opts.includes || []
    this.allowSlot = opts.allowSlot ?? true
    this.families = opts.families
    this.tags = opts.tags
    this.fnNames = ['fn']
    this.objNames = ['ob']
    this.exprCtx = opts.exprCtx || {}
    this.noCall = opts.noCall || false
    this.listKinds = opts.listKinds
    this.safeLists = opts.safeLists || false
    // `slot:` value receivers below <x-a> (only for checks that do not execute updates: the parent is no dynamic-slots component)
    this.slotReceivers = opts.slotReceivers || false
  }
  visibleNames() {
    return [...new Set([...this.dataNames, ...this.scopes])]
  }
  withScopes(names, f) {
    const n = this.scopes.length
    this.scopes.push(...names)
    try { return f() } finally { this.scopes.length = n }
  }
  genExpr(rng, depth) {
    const names = this.visibleNames().filter((n) => !this.moduleNames.includes(n))
    const ctx = { names, arrays: ['arr'], objects: ['ob'], fns: ['fn'], ctors: ['Ctor'], noCall: this.noCall, ...this.exprCtx }
    // scope variables get extra weight so that shadowing is exercised
    const local = this.scopes.filter((n) => !this.moduleNames.includes(n))
    if (local.length && rng.bool(0.5)) ctx.names = [...names, ...local, ...local]
    if (this.moduleNames.length && rng.bool(0.25)) {
      const m = rng.pick(this.moduleNames)
      const r = rng.int(3)
      if (r === 0) return X.mem(X.id(m), 'x')
      if (r === 1) return X.call(X.mem(X.id(m), 'f'), [X.genExpr(rng, Math.max(0, depth - 1), ctx)])
      return X.bin('+', X.mem(X.id(m), 'x'), X.genExpr(rng, Math.max(0, depth - 1), ctx))
    }
    return X.genExpr(rng, depth, ctx)
  }
  genPathExpr(rng) {
    const names = this.visibleNames().filter((n) => !this.moduleNames.includes(n))
    let e = X.id(rng.pick(names))
    for (let i = rng.int(3); i > 0; i--) e = rng.bool(0.6) ? X.mem(e, rng.pick(['x', 'y', 'k0'])) : X.idx(e, rng.bool(0.5) ? X.num(String(rng.int(3))) : X.id(rng.pick(names)))
    return e
  }
  genListValue(rng) {
    const r = rng.int(24)
    const local = this.scopes.filter((n) => !this.moduleNames.includes(n))
    // list expressions with side dependencies (the list's update-path tree is then a computed one)
    if (r >= 20) {
      const items = X.mem(X.id('obj'), 'items')
      return M.ev(rng.pick([
        () => X.bin('&&', X.id('obj'), items),
        () => X.bin('||', items, X.id('list')),
        () => X.bin('??', X.mem(X.id('ob'), 'c'), X.id('list')),
        () => X.cond(X.id('flag'), X.id('list'), items),
        () => X.idx(X.id('obj'), X.str('items')),
        () => X.bin('&&', X.id('flag'), X.id('list')),
        () => X.bin('||', X.bin('&&', X.id('obj'), items), X.id('arr')),
      ])())
    }
    if (r < 7) return M.ev(X.id('list'))
    if (r < 9) return M.ev(X.id('arr'))
    if (r < 11) return M.ev(X.mem(X.id('obj'), 'items'))
    if (r < 12) return M.ev(X.id('obj'))
    if (r < 13) return M.ev(X.num(String(rng.int(4))))
    if (r < 14) return M.sv(rng.pick(['ab', 'xyz', '']))
    if (r < 15) return M.ev(X.id('s'))
    if (r < 16) return M.ev(X.arr([{ k: 'v', e: this.genExpr(rng, 1) }, { k: 'v', e: this.genExpr(rng, 1) }]))
    if (r < 17) return M.ev(X.cond(this.genExpr(rng, 1), X.id('list'), X.id('arr')))
    if (r < 18 && local.length) return M.ev(X.mem(X.id(local[0]), 'sub'))
    // (arbitrary numbers as lists are only generated where a reference pre-pass can reject huge counts)
    if (this.safeLists) return M.ev(X.id('list'))
    if (r < 19) return M.ev(X.id(rng.pick(this.dataNames)))
    return M.ev(X.id('n'))
  }
}

export function makeData(rng, opts = {}) {
  const edgeValue = opts.small ? edgeValueSmall : edgeValueAll
  const D = {}
  for (const n of DATA_NAMES) D[n] = edgeValue(rng)
  const mkItem = (i) => ({ k: 'k' + i, id: i, v: edgeValue(rng), x: rng.pick([1, 'x', null, { y: 2 }]), sub: rng.bool(0.5) ? [i, 'p' + i] : undefined })
  D.list = Array.from({ length: rng.int(4) }, (_, i) => mkItem(i))
  D.arr = rng.pick([() => [1, 2, 3], () => [], () => ['a', , 'c'], () => [[1], { x: 2 }]])()
  D.obj = rng.pick([() => ({ items: [mkItem(7)], x: 1, y: 'why' }), () => ({ x: { x: 5 }, k0: [1] }), () => ({})])()
  if (opts.richObj && rng.bool(0.5)) D.obj = { items: [mkItem(7), mkItem(8)], x: 1, y: 'why' }
  D.ob = rng.pick([() => ({ x: 1, y: 2 }), () => ({}), () => undefined, () => ({ a: 'ob.a', c: [3] })])()
  D.flag = rng.bool()
  D.n = rng.pick([0, 1, 2, 3, -1, 2.5, NaN])
  D.s = rng.pick(['', 'ab', 'x', '😀'])
  D.fn = fn
  D.fn2 = fn2
  D.Ctor = Ctor
  return D
}

export const MODULE_CODE = (tag) => `module.exports = { x: "M:${tag}.x", f: function (a) { return "M:${tag}.f(" + a + ")" }, g: function () { return arguments.length } }\n/* 漢\n😀 */ // 😀 ${tag}`

/** A random file set: main file 'p' (or `mainPath`), optional included file, sub-templates, an inline module. */
export function genFileSet(rng, opts = {}) {
  const mainPath = opts.mainPath || 'p'
  const files = {}
  const scripts = {}
  const withModule = opts.withModule ?? rng.bool(0.3)
  const nDefs = opts.nDefs ?? rng.int(3)
  const withInclude = opts.withInclude ?? rng.bool(0.25)
  const moduleNames = withModule ? ['m'] : []
  // (template names are looked up in tables: a name that also is a member of Object.prototype is a name like any other)
  const defPool = rng.bool(0.12) ? ['toString', '__proto__', 'constructor'] : ['t1', 'item-tpl', 'T3']
  const defNames = Array.from({ length: nDefs }, (_, i) => defPool[i])
  const includes = []
  if (withInclude) {
    const incCtx = new GenCtx({ moduleNames: [], maxDepth: 1, allowSlot: false, families: opts.families, noCall: opts.noCall, safeLists: opts.safeLists })
    if (rng.bool(0.15)) {
      // a file whose own path ends in `.wxml`: the reference needs the suffix twice (only one is optional)
      files['inc.wxml'] = { path: 'inc.wxml', children: M.genNodes(rng, incCtx, 1, 3), imports: [], wxs: [], defs: [] }
      includes.push(rng.pick(['inc.wxml.wxml', './inc.wxml.wxml', '/inc.wxml.wxml']))
    } else {
      files.inc = { path: 'inc', children: M.genNodes(rng, incCtx, 1, 3), imports: [], wxs: [], defs: [] }
      includes.push(rng.pick(['inc', './inc', 'inc.wxml', '/inc']))
    }
  }
  const defs = []
  for (const name of defNames) {
    // (`length` would be visible if the sub-template were run on a string instead of an object)
    const dctx = new GenCtx({ dataNames: ['a', 'b', 'c', 'length'], moduleNames, maxDepth: 1, defNames: defs.map((d) => d.name), allowSlot: false, families: (opts.families || M.FAMILIES).filter((f) => f !== 'change'), noCall: opts.noCall, exprCtx: { ctors: null }, safeLists: opts.safeLists })
    defs.push({ name, children: M.genNodes(rng, dctx, 1, 3) })
  }
  const ctx = new GenCtx({ moduleNames, maxDepth: opts.maxDepth ?? 3, defNames, includes, allowSlot: opts.allowSlot ?? true, families: opts.families, tags: opts.tags, noCall: opts.noCall, exprCtx: opts.exprCtx, safeLists: opts.safeLists, slotReceivers: opts.slotReceivers })
  const children = M.genNodes(rng, ctx, ctx.maxDepth, opts.maxTop ?? 4)
  files[mainPath] = { path: mainPath, imports: [], wxs: withModule ? [{ module: 'm', code: MODULE_CODE('m') }] : [], defs, children }
  // file-level elements may be written anywhere between the top-level nodes
  if (rng.bool(opts.scatter ?? 0.25)) M.scatterHoisted(rng, files[mainPath])
  return { files, scripts, main: mainPath }
}

export function printFileSet(fs_, st) {
  return Object.values(fs_.files).map((f) => [f.path, M.printFile(f, st)])
}
