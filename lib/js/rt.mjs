// E2: the real glass-easel runtime (type-stripped from the working tree) + instrumentation of the
// boundary between generated code and the runtime protocol + node-tree snapshots.
import fs from 'node:fs'
import path from 'node:path'
import { spawnSync } from 'node:child_process'
import { stripTypeScriptTypes } from 'node:module'
import { build, sourceHash } from './build_runtime.mjs'
import { same, show } from './expr.mjs'
import { PROP_COMPONENT_PROPS } from './tmodel.mjs'

export const VERIF = path.resolve(path.dirname(new URL(import.meta.url).pathname), '..', '..')
export const REPO = process.env.VERIF_REPO || '/repo'
const BUILD = path.join(VERIF, '.build')

let geModule = null
export let runtimeInfo = { source: 'none', hash: '' }

export function ensureRuntimeBuilt() {
  const src = path.join(REPO, 'glass-easel', 'src')
  const hash = sourceHash(src)
  const out = path.join(BUILD, 'ge-runtime-' + hash.slice(0, 16))
  const marker = path.join(out, 'SOURCE_SHA256')
  if (!fs.existsSync(marker) || fs.readFileSync(marker, 'utf8').trim() !== hash) {
    if (typeof stripTypeScriptTypes !== 'function') throw new Error('HARNESS: need Node >= 22.13 to build the runtime')
    const tmp = out + '.tmp' + process.pid
    build(src, tmp)
    try {
      fs.rmSync(out, { recursive: true, force: true })
      fs.renameSync(tmp, out)
    } catch (e) {
      // another shard won the race
      fs.rmSync(tmp, { recursive: true, force: true })
    }
    // drop older builds
    for (const d of fs.readdirSync(BUILD)) {
      if (d.startsWith('ge-runtime-') && !d.includes('.tmp') && path.join(BUILD, d) !== out) {
        try { fs.rmSync(path.join(BUILD, d), { recursive: true, force: true }) } catch {}
      }
    }
  }
  return { dir: out, hash }
}

export async function loadRuntime() {
  if (geModule) return geModule
  const { dir, hash } = ensureRuntimeBuilt()
  geModule = await import(path.join(dir, 'index.mjs'))
  runtimeInfo = { source: 'working-tree', hash }
  geModule.globalOptions.throwGlobalError = true
  return geModule
}

// ---------------------------------------------------------------- boundary log

export class Trace {
  constructor() {
    this.events = []
    this.chan = new Map() // element -> channels (last value written per channel)
    this.info = new Map() // element -> { tag, generics, slotArg, dsv }
    this.warnings = []
    this.counts = Object.create(null)
    this.keep = true
  }
  push(ev) {
    this.counts[ev.op] = (this.counts[ev.op] || 0) + 1
    if (this.keep) this.events.push(ev)
  }
  ch(node) {
    let c = this.chan.get(node)
    if (!c) {
      c = { r: {}, d: {}, m: {}, v: {}, p: {}, wl: {}, a: {}, l: {} }
      this.chan.set(node, c)
    }
    return c
  }
  mark() {
    return this.events.length
  }
  since(m) {
    return this.events.slice(m)
  }
}

const R_METHODS = ['c', 'y', 'i', 's', 'd', 'm', 'r', 'v', 'p', 'wl', 'a', 'l', 'setFnFilter', 'setEventListenerWrapper', 'devArgs']

function proxyR(R, tr) {
  return new Proxy(R, {
    get(t, p) {
      const v = t[p]
      if (typeof v !== 'function' || typeof p !== 'string' || !R_METHODS.includes(p)) return v
      return (...a) => {
        tr.push({ op: 'R.' + p, args: a })
        const N = a[0]
        switch (p) {
          case 'c': tr.ch(N).c = a[1]; break
          case 'y': tr.ch(N).y = a[1]; break
          case 'i': tr.ch(N).i = a[1]; break
          case 's': tr.ch(N).s = a[1]; break
          case 'd': tr.ch(N).d[a[1]] = a[2]; break
          case 'm': tr.ch(N).m[a[1]] = a[2]; break
          case 'r': tr.ch(N).r[a[1]] = a.length > 3 ? [a[2], a[3], a[4]] : [a[2]]; break
          case 'v': {
            // (args: N, event, value, final, mutated, capture, isDynamic, l-value path, ordinal among equal bindings)
            const ch = tr.ch(N)
            ch.v[a[1]] = a.slice(2)
            if (!ch.vb) ch.vb = {}
            ch.vb[a[1] + '#' + (a[5] ? 'c' : '') + (a[4] ? 'm' : '') + (a[3] ? 'f' : '') + (a[6] ? 'd' : 's') + (a[8] || '')] = a.slice(2)
            break
          }
          case 'p': tr.ch(N).p[a[1]] = a.slice(2); break
          case 'wl': tr.ch(N).wl[a[1]] = a[2]; break
          case 'a': tr.ch(N).a[a[1]] = a[2]; break
          case 'l': tr.ch(N).l[a[1]] = a.slice(2); break
          default: break
        }
        return v.apply(t, a)
      }
    },
  })
}

function wrapChildren(ch, tr) {
  if (typeof ch !== 'function') return ch
  return (C, T, E, B, F, S, J, V, W) => {
    tr.push({ op: 'children', creation: C, V, W })
    return ch(
      C,
      T && ((text, init) => { tr.push({ op: 'T', creation: C, text, hasInit: !!init }); return T(text, init) }),
      E && ((tag, gen, init, children, slot, dsv) => {
        tr.push({ op: 'E', creation: C, tag, generics: gen, slot, dsv })
        const init2 = (N, C2) => {
          tr.info.set(N, { tag, generics: gen, slotArg: slot, dsv })
          tr.push({ op: 'E.init', node: N, creation: C2, tag })
          return init(N, C2)
        }
        return E(tag, gen, init2, wrapChildren(children, tr), slot, dsv)
      }),
      B && ((key, f) => { tr.push({ op: 'B', creation: C, key }); return B(key, wrapChildren(f, tr)) }),
      F && ((list, key, upt, lv, cb) => {
        tr.push({ op: 'F', creation: C, list, key, upt, lvaluePath: lv })
        return F(list, key, upt, lv, (C2, item, index, iupt, xupt, ilv, T2, E2, B2, F2, S2, J2) => {
          tr.push({ op: 'F.item', creation: C2, item, index, itemUpt: iupt, indexUpt: xupt, itemLvaluePath: ilv })
          return wrapChildren((c, ...r) => cb(c, item, index, iupt, xupt, ilv, ...r), tr)(C2, T2, E2, B2, F2, S2, J2)
        })
      }),
      S && ((name, init, slot) => {
        tr.push({ op: 'S', creation: C, name, slot, hasInit: !!init })
        const init2 = init && ((N) => { tr.info.set(N, { tag: 'slot', slotArg: slot, slotName: name }); tr.push({ op: 'S.init', node: N }); return init(N) })
        return S(name, init2, slot)
      }),
      J && ((children, slot) => { tr.push({ op: 'J', creation: C, slot }); return J(wrapChildren(children, tr), slot) }),
      V,
      W,
    )
  }
}

/** Evaluate a `get_tmpl_gen_object_groups()` string into the group list G. */
export function evalGroups(src) {
  // the artefact is an expression; indirect evaluation in sloppy mode, as a <script> would do
  return new Function('return ' + src)()
}

/** A ComponentTemplate for `path` in group list `G` whose protocol traffic is logged into `tr`. */
export function instrumentedTemplate(G, p, tr, extra = {}) {
  const content = (name) => {
    const pg = G[p](name)
    if (!pg) return pg
    return (R, C, D, U) => {
      tr.push({ op: 'procgen', creation: C, U })
      const r = pg(proxyR(R, tr), C, D, U)
      tr.B = r.B
      return { C: wrapChildren(r.C, tr), B: r.B }
    }
  }
  return { groupList: G, content, ...extra }
}

// ---------------------------------------------------------------- snapshots

const VIRTUAL_TRANSPARENT = new Set(['wx:if', 'wx:for', 'wx:for-item', 'virtual'])

function normFn(v) {
  return v
}

/** Snapshot of the node tree below `parent` (flattened: if/for/for-item/virtual wrappers are dropped). */
export function snapshot(ge, parent, tr, opts = {}) {
  const out = []
  const visit = (node, into) => {
    if (node.childNodes === undefined || node instanceof ge.TextNode) {
      into.push({ k: 'text', text: node.textContent })
      return
    }
    const isVirtual = node instanceof ge.VirtualNode
    if (isVirtual && node._$slotName === null && VIRTUAL_TRANSPARENT.has(node.is)) {
      const declaredSlot = node._$inheritSlots ? undefined : node._$nodeSlot
      if (node.is === 'virtual' && !node._$inheritSlots && !opts.flattenAll) {
        const v = { k: 'virtual', slot: declaredSlot || '', children: [] }
        node.childNodes.forEach((c) => visit(c, v.children))
        into.push(v)
        return
      }
      node.childNodes.forEach((c) => visit(c, into))
      return
    }
    const c = tr ? tr.chan.get(node) : undefined
    const info = tr ? tr.info.get(node) : undefined
    if (isVirtual && node._$slotName !== null) {
      const s = { k: 'slot', name: node._$slotName, slot: node._$nodeSlot || '', values: {}, ch: c ? chanView(c) : {} }
      into.push(s)
      return
    }
    const el = {
      k: 'el',
      tag: node instanceof ge.Component ? node.tagName : node.is,
      slot: node._$nodeSlot || '',
      ch: c ? chanView(c) : {},
      generics: info ? info.generics : undefined,
      dsv: info ? info.dsv : undefined,
      children: [],
    }
    let kids = node.childNodes
    if (node instanceof ge.Component && node.getShadowRoot() && node.getShadowRoot().getSlotMode() === 3 /* SlotMode.Dynamic */) {
      // content of dynamic slots: the host keeps it in creation order (a slot that moves does not move its content);
      // what is rendered is the content of each slot, in the order of the slots -> compare in that order
      const order = new Map()
      const walkSlots = (n) => { if (n.childNodes === undefined) return; if (n._$slotName !== null && n._$slotName !== undefined) order.set(n, order.size); n.childNodes.forEach(walkSlots) }
      node.getShadowRoot().childNodes.forEach(walkSlots)
      const rank = (c) => (c.containingSlot && order.has(c.containingSlot) ? order.get(c.containingSlot) : order.size)
      kids = [...kids].map((c, i) => [c, i]).sort((a, b) => rank(a[0]) - rank(b[0]) || a[1] - b[1]).map((x) => x[0])
    }
    kids.forEach((ch) => visit(ch, el.children))
    if (node instanceof ge.Component && node.is === 'cmp/x-a') el.props = Object.fromEntries(PROP_COMPONENT_PROPS.map((p) => [p, node.data[p]]))
    if (opts.shadow && node instanceof ge.Component) {
      el.shadow = snapshot(ge, node.getShadowRoot(), opts.shadowTrace ? opts.shadowTrace(node) : null, opts)
    }
    into.push(el)
  }
  parent.childNodes.forEach((c) => visit(c, out))
  return out
}

function chanView(c) {
  const o = {}
  // (`s` — R.s, the legacy slot setter used by binding-map updaters — is observed through node.slot instead)
  for (const k of ['c', 'y', 'i']) if (k in c) o[k] = c[k]
  for (const k of ['r', 'd', 'm', 'v', 'p', 'wl', 'a', 'l']) if (Object.keys(c[k]).length) o[k] = { ...c[k] }
  // an event with several bindings on this node: one entry per binding instead of "the last call for that event name"
  if (c.vb) {
    const per = {}
    for (const bk of Object.keys(c.vb)) (per[bk.slice(0, bk.lastIndexOf('#'))] ||= []).push(bk)
    for (const [name, bks] of Object.entries(per)) if (bks.length > 1) { delete o.v[name]; for (const bk of bks) o.v[bk] = c.vb[bk] }
  }
  return o
}

/** Deep comparison of two snapshots with the `same` relation on values; returns null or a path string. */
export function diffSnap(a, b, p = '') {
  if (Array.isArray(a) && Array.isArray(b) && (a.length === 0 || typeof a[0] === 'object') && isNodeList(a) && isNodeList(b)) {
    if (a.length !== b.length) return `${p}: ${a.length} nodes vs ${b.length} nodes [${a.map(brief).join(' ')}] vs [${b.map(brief).join(' ')}]`
    for (let i = 0; i < a.length; i++) {
      const d = diffSnap(a[i], b[i], `${p}/${i}`)
      if (d) return d
    }
    return null
  }
  if (a && b && typeof a === 'object' && typeof b === 'object' && a.k && b.k) {
    if (a.k !== b.k) return `${p}: node kind ${a.k} vs ${b.k}`
    if (a.k === 'text') return same(a.text, b.text) ? null : `${p}: text ${show(a.text)} vs ${show(b.text)}`
    for (const key of new Set([...Object.keys(a), ...Object.keys(b)])) {
      if (key === 'children' || key === 'shadow') continue
      if (!same(a[key], b[key])) return `${p}<${a.tag || a.k}>.${key}: ${show(a[key])} vs ${show(b[key])}`
    }
    if (a.children || b.children) {
      const d = diffSnap(a.children || [], b.children || [], p + '<' + (a.tag || a.k) + '>')
      if (d) return d
    }
    if (a.shadow || b.shadow) {
      const d = diffSnap(a.shadow || [], b.shadow || [], p + '<' + (a.tag || a.k) + '>#shadow')
      if (d) return d
    }
    return null
  }
  return same(a, b) ? null : `${p}: ${show(a)} vs ${show(b)}`
}
function isNodeList(a) {
  return a.every((x) => x && typeof x === 'object' && 'k' in x)
}
function brief(n) {
  return n.k === 'text' ? JSON.stringify(n.text) : n.k === 'el' ? '<' + n.tag + '>' : n.k
}

export function showSnap(nodes, indent = '') {
  let s = ''
  for (const n of nodes) {
    if (n.k === 'text') s += indent + JSON.stringify(n.text) + '\n'
    else {
      const attrs = { ...n }
      delete attrs.children
      delete attrs.k
      delete attrs.shadow
      s += indent + (n.k === 'el' ? '<' + n.tag + '>' : '(' + n.k + ')') + ' ' + show(attrs) + '\n'
      if (n.shadow) s += indent + '  #shadow\n' + showSnap(n.shadow, indent + '    ')
      if (n.children) s += showSnap(n.children, indent + '  ')
    }
  }
  return s
}

// ---------------------------------------------------------------- components

export function collectWarnings(ge, tr) {
  const l = (msg) => { tr.warnings.push(String(msg)) }
  ge.addGlobalWarningListener(l)
  return () => ge.removeGlobalWarningListener(l)
}

/** `<x-a>` as a real child component (opts.propComponents): any-typed properties for the attribute names the
 *  generator uses, so that the component branch of the runtime (camel-casing, replaceProperty and its flush,
 *  model / change listeners) is exercised; its property values are part of the snapshot. It has no template. */
export const PROP_COMPONENT_TAG = 'x-a'
export function definePropComponent(ge, space) {
  return space.defineComponent({
    is: 'cmp/x-a',
    options: { dataDeepCopy: ge.DeepCopyKind.None, propertyPassingDeepCopy: ge.DeepCopyKind.None },
    properties: Object.fromEntries(PROP_COMPONENT_PROPS.map((p) => [p, null])),
  })
}

/** `<d-s list="{{...}}">`: a dynamic-slots child (opts.dynSlotChild = its compiled group list) that renders its slot once
 *  per item of its `list` property, handing over the slot values `v` (item.v) and `i` (index). */
export const DYN_SLOT_CHILD_SRC = '<block wx:if="{{keyed}}"><block wx:for="{{list}}" wx:key="k"><slot v="{{item.v}}" i="{{index}}"/></block></block><block wx:else><block wx:for="{{list}}"><slot v="{{item.v}}" i="{{index}}"/></block></block>'
export function defineDynSlotChild(ge, space, childGroups, keyed = false) {
  const ctr = new Trace()
  ctr.keep = false
  return space.defineComponent({
    is: keyed ? 'cmp/d-k' : 'cmp/d-s',
    data: () => ({ keyed }),
    // (properties are copied on the way in, as by default: a list that the host mutates in place still arrives as a new value)
    options: { dynamicSlots: true, dataDeepCopy: ge.DeepCopyKind.None, propertyPassingDeepCopy: ge.DeepCopyKind.Simple },
    properties: { list: null },
    template: instrumentedTemplate(childGroups, 'child', ctr),
  })
}

/** Create a root component from an instrumented template. */
export function createRoot(ge, template, data, opts = {}) {
  const space = opts.space || new ge.ComponentSpace()
  // `<d-s>` iterates its list without a key, `<d-k>` with wx:key="k" (slots are then moved, inserted and removed anywhere)
  if (opts.dynSlotChild) opts = { ...opts, using: { ...(opts.using || {}), 'd-s': defineDynSlotChild(ge, space, opts.dynSlotChild, false).general(), 'd-k': defineDynSlotChild(ge, space, opts.dynSlotChild, true).general() } }
  if (opts.propComponents) opts = { ...opts, using: { ...(opts.using || {}), [PROP_COMPONENT_TAG]: definePropComponent(ge, space).general() } }
  const def = space.defineComponent({
    options: { dataDeepCopy: ge.DeepCopyKind.None, propertyPassingDeepCopy: ge.DeepCopyKind.None, ...(opts.options || {}) },
    using: opts.using || {},
    generics: opts.generics,
    template,
    // a data generator: static data would be deep-copied by the runtime (functions and class instances lost)
    data: () => data,
    methods: opts.methods,
  })
  const comp = ge.Component.createWithContext('root', def.general(), opts.backend || new ge.EmptyComposedBackendContext())
  return comp
}
