// Shared helpers of the JS-side drivers: compile with the SUT, instantiate on the real runtime.
import { gevBatch } from './gev.mjs'
import { Trace, evalGroups, instrumentedTemplate, createRoot, collectWarnings, snapshot } from './rt.mjs'

export const LEVEL = { Note: 1, Warn: 2, Error: 3, Fatal: 4 }

/** Compile many independent cases in one gev process. cases: [{id, files, scripts, ...}] */
export function compileMany(cases, want = { groups: true }) {
  return gevBatch('tmpl', cases.map((c) => ({ want, ...c })))
}

export function maxLevel(result) {
  let m = 0
  for (const f of Object.values(result.files || {})) for (const d of f.diags || []) m = Math.max(m, d.level)
  return m
}
export function allDiags(result) {
  const out = []
  for (const [p, f] of Object.entries(result.files || {})) for (const d of f.diags || []) out.push({ path: p, ...d })
  return out
}

/** Instantiate `path` of group source on the real runtime. Returns {comp, tr, error}. */
export function instantiate(ge, groupsSrc, p, data, opts = {}) {
  const tr = opts.trace || new Trace()
  if (opts.keepEvents === false) tr.keep = false
  const off = collectWarnings(ge, tr)
  try {
    const G = typeof groupsSrc === 'string' ? evalGroups(groupsSrc) : groupsSrc
    const comp = createRoot(ge, instrumentedTemplate(G, p, tr, opts.templateExtra || {}), data, opts)
    return { comp, tr, G }
  } catch (error) {
    return { error, tr }
  } finally {
    off()
  }
}

export function snap(ge, comp, tr, opts) {
  return snapshot(ge, comp.getShadowRoot(), tr, opts)
}

/** Run `f` collecting runtime warnings into tr. */
export function withWarnings(ge, tr, f) {
  const off = collectWarnings(ge, tr)
  try { return f() } finally { off() }
}
