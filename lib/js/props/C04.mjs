// C04 — creation renders the node tree WXML semantics define.
// Events: flattened snapshot of the real node tree after createWithContext + per-element channel values from
// the protocol-boundary log. Oracle: equality with the reference renderer (ref.mjs) on the abstract template.
import * as X from '../expr.mjs'
import * as M from '../tmodel.mjs'
import { Renderer, normalizeObserved } from '../ref.mjs'
import { genFileSet, makeData, printFileSet } from '../gen.mjs'
import { compileMany, instantiate, allDiags, snap, LEVEL } from '../kit.mjs'
import { diffSnap, showSnap } from '../rt.mjs'
import { Rng } from '../prng.mjs'

export const rule = 'distinct = structural shape of the abstract file set (node kinds, attribute families x value kinds, control wrappers; literals erased); non-trivial = >=1 dynamic value and >=2 node kinds'
export const assumptions = [
  'the reference renderer is written from the documentation and the property text (Appendix B of DESIGN.md); it never parses WXML',
  'templates on which the reference itself throws (e.g. instanceof with a non-callable operand) are outside the workload and counted',
  'in every second case `<x-a>` is a real child component with any-typed properties (its property values are part of the snapshot); all other elements are native nodes; slot-value scopes are exercised in C05/C06 with a dynamic-slots child component',
]

function referenceFor(fs_, D, propComponents) {
  const r = new Renderer({ files: fs_.files, scripts: fs_.scripts }, { propComponents })
  return r.renderMain(fs_.main, D)
}

export function judgeCase(ctx, c, res) {
  const { ge, report } = ctx
  const viol = (s_, w) => report.violation(s_, { caseSeed: c.caseSeed, genOpts: c.genOpts || {}, ...w })
  if (!res || res.inconclusive) { report.inconc(res ? res.inconclusive : 'no result'); return }
  if (res.crash) { viol('compiler process died', { files: c.sources, crash: res.crash }); return }
  if (res.panics && res.panics.length) { viol(`compiler panicked: ${res.panics[0].msg} at ${res.panics[0].site}`, { files: c.sources, panic: res.panics[0] }); return }
  const diags = allDiags(res)
  const bad = diags.filter((d) => d.level >= LEVEL.Warn)
  if (bad.length) { viol(`documented syntax produced diagnostic "${bad[0].kind}"`, { files: c.sources, diags: bad }); return }
  c.datas.forEach((D, di) => {
    const want = c.refs[di]
    if (want === null) return
    report.evals()
    const { comp, tr, error } = instantiate(ge, res.groups, c.fs.main, D, { keepEvents: false, propComponents: (c.caseSeed & 1) === 1 })
    if (error) {
      viol(`generated code threw: ${String(error.message || error).slice(0, 200)}`, { files: c.sources, data: X.show(D), error: String(error.stack || error).slice(0, 800), reference: showSnap(want) })
      return
    }
    const got = normalizeObserved(snap(ge, comp, tr, {}))
    const d = diffSnap(got, want)
    if (d) {
      viol(`rendered tree differs from WXML semantics at ${d}`.slice(0, 400), { files: c.sources, data: X.show(D), got: showSnap(got), want: showSnap(want), diff: d })
      c.failed = true
    }
    for (const [k, v] of Object.entries(tr.counts)) report.cell('protocol_events', k, 'n', v)
  })
}

export function coverage(report, fs_) {
  let dyn = 0
  const kinds = new Set()
  for (const f of Object.values(fs_.files)) {
    const visit = (nodes) => M.walkNodes(nodes, (n) => {
      kinds.add(n.t)
      for (const v of M.nodeValues(n)) if (!M.isStatic(v)) dyn++
      if (n.t === 'el') for (const a of n.attrs) report.cell('attr_family_x_value', a.fam, a.value === null ? 'absent' : M.isStatic(a.value) ? 'static' : M.isSingle(a.value) ? 'single' : 'mixed')
      if (n.t === 'text') report.cell('text_kinds', 'text', M.isStatic(n.v) ? 'static' : M.isSingle(n.v) ? 'single' : 'mixed')
      report.cell('node_kinds', n.t, 'n')
    })
    visit(f.children)
    for (const d of f.defs || []) visit(d.children)
  }
  return { dyn, kinds: kinds.size }
}

export function makeCases(ctx, n, genOpts = {}, fixedSeeds = null) {
  const { rng, report } = ctx
  const cases = []
  let attempts = 0
  while (cases.length < n && attempts++ < n * 4) {
    const caseSeed = fixedSeeds ? fixedSeeds[attempts - 1] : rng.u32()
    if (caseSeed === undefined) break
    const r = new Rng(caseSeed)
    const fs_ = genFileSet(r, genOpts)
    const st = { rng: r, spacing: r.bool(0.5), redundant: r.bool(0.3) ? 0.1 : 0, entities: r.bool(0.4) ? 0.15 : 0, layout: r.bool(0.5), between: true, shuffleAttrs: r.bool(0.5), unquoted: true, noNewline: false }
    let sources
    try { sources = printFileSet(fs_, st) } catch (e) { if (/adjacent text/.test(e.message)) { report.count('model_rejects'); continue } throw e }
    // (a byte order mark in front of a file is an artefact of its encoding, not a text node)
    if (caseSeed % 37 === 5) sources = sources.map(([p, s]) => [p, '\ufeff' + s])
    const datas = [makeData(r), makeData(r), makeData(r)]
    const refs = datas.map((D) => { try { return referenceFor(fs_, D, (caseSeed & 1) === 1) } catch (e) { return null } })
    if (refs.every((x) => x === null)) { report.count('reference_throws_skipped'); continue }
    report.count('reference_throws_envs', refs.filter((x) => x === null).length)
    cases.push({ id: cases.length, caseSeed, genOpts, fs: fs_, sources, datas, refs })
  }
  return cases
}

/** `change:` listeners are registered under a normalised name and looked up when the attribute of that name is set:
 *  a dashed spelling must behave exactly like the plain one (relative oracle: the control is a one-word name). */
function changeListenerProbes(ctx) {
  const { ge, report } = ctx
  const mk = (tag, name) => `<${tag} ${name}="{{x}}" change:${name}="{{rec}}"/>`
  const cases = [
    { id: 0, what: 'component property', control: mk('x-a', 'title'), probe: mk('x-a', 'a-b'), pc: true },
    { id: 1, what: 'component property', control: mk('x-a', 'value'), probe: mk('x-a', 'hover-class'), pc: true },
    { id: 2, what: 'native attribute', control: mk('view', 'title'), probe: mk('view', 'aria-label'), pc: false },
    { id: 3, what: 'native attribute', control: mk('view', 'src'), probe: mk('view', 'hover-stay-time'), pc: false },
  ]
  const compiled = compileMany(cases.flatMap((c) => [{ id: c.id * 2, files: [['p', c.control]], scripts: [] }, { id: c.id * 2 + 1, files: [['p', c.probe]], scripts: [] }]))
  const runOne = (res, pc) => {
    const calls = []
    const data = { x: 'v0', rec: function rec(n, o) { calls.push([n, o]) } }
    const inst = instantiate(ge, res.groups, 'p', data, { keepEvents: false, propComponents: pc })
    if (inst.error) return { error: String(inst.error.message || inst.error) }
    const atCreation = calls.length
    try { inst.comp.setData({ x: 'v1' }) } catch (e) { return { error: String(e.message || e) } }
    return { atCreation, afterUpdate: calls.length, calls: JSON.stringify(calls) }
  }
  for (const c of cases) {
    const a = compiled.get(c.id * 2)
    const b = compiled.get(c.id * 2 + 1)
    if (!a || !b || a.inconclusive || b.inconclusive) { report.inconc('change-listener probe not compiled'); continue }
    const ra = runOne(a, c.pc)
    const rb = runOne(b, c.pc)
    report.evals()
    report.count('change_listener_probes')
    if (ra.error || rb.error) { report.violation(`change: listener probe threw: ${ra.error || rb.error}`, { control: c.control, probe: c.probe }); continue }
    if (ra.afterUpdate === 0) { report.count('change_listener_control_never_called'); continue }
    if (ra.calls !== rb.calls) report.violation(`the change: listener of a dashed ${c.what} is not called like that of a one-word name: ${rb.calls} vs ${ra.calls}`, { control: c.control, probe: c.probe, control_calls: ra.calls, probe_calls: rb.calls })
  }
}

export async function run(ctx) {
  if (ctx.shard === 0) changeListenerProbes(ctx)
  const { report, tier } = ctx
  const N = tier === 'thorough' ? 9000 : 900
  const cases = makeCases(ctx, N)
  const BATCH = 300
  for (let i = 0; i < cases.length; i += BATCH) {
    const batch = cases.slice(i, i + BATCH)
    const results = compileMany(batch.map((c) => ({ id: c.id, files: c.sources, scripts: Object.entries(c.fs.scripts) })))
    for (const c of batch) {
      judgeCase(ctx, c, results.get(c.id))
      const cov = coverage(report, c.fs)
      if (cov.dyn >= 1 && cov.kinds >= 2) report.shape(Object.values(c.fs.files).map((f) => M.shapeOfNodes(f.children) + '#' + (f.defs || []).map((d) => M.shapeOfNodes(d.children)).join('#')).join('||'))
      report.sample({ files: c.sources, data: X.show(c.datas[0]).slice(0, 300), reference_tree: c.refs[0] ? showSnap(c.refs[0]).slice(0, 600) : null }, 3)
    }
  }
  report.count('cases', cases.length)
}

export async function replay(ctx) {
  const w = ctx.replay.witness
  if (w.caseSeed === undefined) { changeListenerProbes(ctx); return }
  const cases = makeCases(ctx, 1, w.genOpts || {}, [w.caseSeed])
  for (const c of cases) {
    const results = compileMany([{ id: c.id, files: c.sources, scripts: Object.entries(c.fs.scripts) }])
    judgeCase(ctx, c, results.get(c.id))
  }
  ctx.report.count('cases', cases.length)
}
