// C15 — diagnostics: clean input is clean, broken input is flagged, locations are valid.
// Events: Vec<ParseError> of add_tmpl; position events of the parser tap (gev total).
// Oracle: (i) documented syntax -> nothing at Warn or above; (ii) each single-defect injection -> >=1 diagnostic
// of the expected kind at >= the documented level; (iii) every diagnostic of every input (also damaged ones)
// has start <= end on existing lines / UTF-16 columns; the tap monitor recomputes (line, column) from the byte
// cursor at every position() and after every try_parse rollback.
import * as X from '../expr.mjs'
import * as M from '../tmodel.mjs'
import { genFileSet, printFileSet } from '../gen.mjs'
import { gevBatch } from '../gev.mjs'
import { compileMany, LEVEL } from '../kit.mjs'
import { Rng } from '../prng.mjs'

export const needsRuntime = false
export const rule = 'distinct = (clean | defect kind x injection site kind | damaged) x structural shape; non-trivial = an injected defect, or >= 20 nodes of clean syntax'
export const assumptions = [
  'the table of defects and documented minimum levels is Appendix A of DESIGN.md (taken from ParseErrorKind::level as documented)',
  'lines are separated by LF; columns are UTF-16 code units',
]

const EXPECT = {
  'missing-end-tag': ['missing end tag', LEVEL.Warn],
  'cut-start-tag': ['incomplete tag', LEVEL.Fatal],
  'cut-end-tag': ['incomplete tag', LEVEL.Fatal],
  'cut-comment': ['incomplete tag', LEVEL.Fatal],
  'unterminated-binding': ['missing expression end', LEVEL.Fatal],
  'trailing-garbage': ['unexpected character inside expression', LEVEL.Fatal],
  'unknown-wx-directive': ['invalid attribute prefix', LEVEL.Warn],
  'unknown-prefix': ['invalid attribute prefix', LEVEL.Warn],
  'duplicated-attribute': ['duplicated attribute', LEVEL.Warn],
  'children-not-allowed': ['child nodes are not allowed for this element', LEVEL.Error],
  'missing-src': ['missing source path', LEVEL.Error],
  'missing-module': ['missing module name', LEVEL.Error],
  'missing-is-or-name': ['missing module name', LEVEL.Error],
}

function locOk(text, d) {
  const lines = text.split('\n')
  const [sl, sc, el, ec] = d.loc
  if (sl > el || (sl === el && sc > ec)) return 'start after end'
  if (el >= lines.length || sl >= lines.length) return `line ${el} does not exist (${lines.length} lines)`
  if (sc > lines[sl].length) return `start column ${sc} beyond line length ${lines[sl].length}`
  if (ec > lines[el].length) return `end column ${ec} beyond line length ${lines[el].length}`
  return null
}

/** Inject one defect; returns {text, defect, site} or null when not applicable. */
function inject(rng, fs_, st) {
  const file = fs_.files[fs_.main]
  const kind = rng.pick(Object.keys(EXPECT))
  // collect candidate nodes
  const els = []
  const texts = []
  const lists = []
  const collect = (nodes) => { lists.push(nodes); for (const n of nodes) { if (n.t === 'el') els.push(n); if (n.t === 'text' && !M.isStatic(n.v)) texts.push(n); for (const l of M.childLists(n)) collect(l) } }
  collect(file.children)
  const clone = (x) => structuredClone(x)
  const printMain = (f) => M.printFile(f, st)
  const withReplaced = (target, replacement) => {
    // print the file with `target` replaced by a raw node
    const f = clone(file)
    let done = false
    const walk = (nodes, orig) => nodes.map((n, i) => {
      if (orig[i] === target) { done = true; return replacement(n) }
      switch (n.t) {
        case 'el': case 'block': return { ...n, children: walk(n.children, orig[i].children) }
        case 'if': return { ...n, branches: n.branches.map((b, k) => ({ ...b, node: walk([b.node], [orig[i].branches[k].node])[0] })), els: n.els ? walk([n.els], [orig[i].els])[0] : null }
        case 'for': return { ...n, node: walk([n.node], [orig[i].node])[0] }
        default: return n
      }
    })
    f.children = walk(f.children, file.children)
    return done ? f : null
  }
  switch (kind) {
    case 'missing-end-tag': {
      const c = els.filter((e) => e.children.length > 0)
      if (!c.length) return null
      const t = rng.pick(c)
      const f = withReplaced(t, (n) => ({ t: 'raw', wxml: M.printNode(n, st).replace(new RegExp('</' + n.tag + '\\s*>$'), '') }))
      return f && { text: printMain(f), kind, site: 'element <' + t.tag + '>' }
    }
    case 'cut-start-tag': {
      const text = printMain(file)
      const tag = rng.pick(['view', 'a', 'block', 'slot', 'template'])
      const tail = rng.pick(['<' + tag, '<' + tag + ' ', '<' + tag + ' a', '<' + tag + ' a="1"', '<' + tag + ' a="1" ', '<' + tag + ' wx:if="{{a}}"', '<' + tag + '\n', '<' + tag + ' /'])
      return { text: text + tail, kind, site: 'end of input: ' + JSON.stringify(tail) }
    }
    case 'cut-end-tag': {
      // the last end tag of the input lacks its `>`
      const text = printMain(file)
      const tag = rng.pick(['view', 'a', 'block'])
      const tail = rng.pick(['<' + tag + '>x</' + tag, '<' + tag + '>x</' + tag + ' ', '<' + tag + '>x</' + tag + '\n', '<' + tag + ' a="1"><b/></' + tag])
      return { text: text + tail, kind, site: 'end of input: ' + JSON.stringify(tail) }
    }
    case 'cut-comment': {
      // a comment that is never closed swallows the rest of the input
      const text = printMain(file)
      const tail = rng.pick(['<!-- TODO: re-enable\n<view>b</view>', '<!-- c', '<!--', '<!-- a -- b ->', '<view>x</view><!-- c --'])
      return { text: text + tail, kind, site: 'end of input: ' + JSON.stringify(tail) }
    }
    case 'unterminated-binding': {
      const text = printMain(file)
      const tail = rng.pick(['{{ a', '{{a.b', 'x{{ a + ', '{{ "s" ', '<a v="{{ a', '{{ a }', '{{ [a, b] ', '{{'])
      return { text: text + tail, kind, site: 'end of input: ' + JSON.stringify(tail) }
    }
    case 'trailing-garbage': {
      const garbage = rng.pick(['b', ')', ']', '#', '@', '1x', '"q"', ';', '=', '=>', '++', '}'])
      if (texts.length && rng.bool(0.5)) {
        const t = rng.pick(texts)
        // (a comment in front: an adjacent text node ending in `{` would otherwise turn `{{ a } }}` into the legal `{{ {a} }}`)
        const f = withReplaced(t, (n) => ({ t: 'raw', wxml: '<!---->{{ a ' + garbage + ' }}' }))
        return f && { text: printMain(f), kind, site: 'text binding + ' + garbage }
      }
      if (!els.length) return null
      const t = rng.pick(els)
      const f = withReplaced(t, (n) => ({ ...n, attrs: [...n.attrs, { fam: 'plain', name: 'zzz', value: { parts: [{ s: '' }] }, rawValue: '{{ a ' + garbage + ' }}' }] }))
      if (!f) return null
      return { text: printMain(f).replace('zzz=""', 'zzz="{{ a ' + garbage + ' }}"').replace("zzz=''", 'zzz="{{ a ' + garbage + ' }}"').replace(/zzz(?=[\s/>])/, 'zzz="{{ a ' + garbage + ' }}"'), kind, site: 'attribute binding + ' + garbage }
    }
    case 'unknown-wx-directive': case 'unknown-prefix': case 'duplicated-attribute': {
      if (!els.length) return null
      const t = rng.pick(els)
      let extra
      if (kind === 'unknown-wx-directive') extra = [{ fam: 'plain', name: 'wx:' + rng.pick(['foo', 'iff', 'for-items', 'show', 'else-if']), value: M.sv('1') }]
      else if (kind === 'unknown-prefix') extra = [{ fam: 'plain', name: rng.pick(['zz', 'on', 'binds', 'v-bind', 'x.y']) + ':' + rng.pick(['a', 'tap']), value: M.sv('1') }]
      else {
        const cands = t.attrs.filter((a) => ['plain', 'id', 'class', 'style', 'slot', 'data:', 'mark', 'model', 'change', 'worklet', 'generic', 'extra-attr'].includes(a.fam)) // (several event bindings of one name are legal: the pinned test parse::tag::test::event_listener keeps both)
        if (!cands.length) extra = [{ fam: 'plain', name: 'dup', value: M.sv('1') }, { fam: 'plain', name: 'dup', value: M.sv('2') }]
        else {
          const pick = rng.pick(cands)
          extra = [clone(pick)]
          // `model:my-value` and a plain `my-value` name the same property (the model: name is stored camel-cased)
          if (pick.fam === 'model' && rng.bool(0.5)) extra = [{ fam: 'plain', name: pick.name, value: M.sv('1') }]
          else if (pick.fam === 'plain' && /-/.test(pick.name) && !/^(data|bind|catch|on|capture|mut)/.test(pick.name) && t.tag !== 'slot' && rng.bool(0.5)) extra = [{ fam: 'model', name: pick.name, value: M.ev(X.id('a')) }]
        }
      }
      const f = withReplaced(t, (n) => ({ ...n, attrs: [...n.attrs, ...extra] }))
      return f && { text: M.printFile(f, { ...st, shuffleAttrs: false }), kind, site: 'element <' + t.tag + '> + ' + extra.map((a) => M.attrSourceName(a)).join(',') }
    }
    case 'children-not-allowed': {
      const raw = rng.pick(['<slot name="footer"><!-- default --><view>fallback</view></slot>', '<include src="x"><!-- c -->text</include>', '<template is="t"> <!-- c --> <a/></template>', '<include src="x"><a/></include>', '<import src="x">t</import>', '<slot name="s"><a/></slot>', '<template is="t"><a/></template>', '<slot>text</slot>', '<include src="x">{{a}}</include>'])
      const l = rng.pick(lists)
      const f = clone(file)
      f.children = [...f.children, { t: 'raw', wxml: raw }]
      return { text: printMain(f), kind, site: raw }
    }
    case 'missing-src': {
      const raw = rng.pick(['<include/>', '<import/>', '<include></include>', '<import src=""/>', '<include src/>'])
      const f = clone(file); f.children = [...f.children, { t: 'raw', wxml: raw }]
      return { text: printMain(f), kind, site: raw }
    }
    case 'missing-module': {
      const raw = rng.pick(['<wxs>var a = 1</wxs>', '<wxs src="./a.wxs"/>', '<wxs/>'])
      const f = clone(file); f.children = [...f.children, { t: 'raw', wxml: raw }]
      return { text: printMain(f), kind, site: raw }
    }
    case 'missing-is-or-name': {
      const raw = rng.pick(['<template/>', '<template data="{{a}}"/>', '<template><a/></template>'])
      const f = clone(file); f.children = [...f.children, { t: 'raw', wxml: raw }]
      return { text: printMain(f), kind, site: raw }
    }
  }
  return null
}

function mutate(rng, s) {
  const dict = ['<', '>', '/', '{{', '}}', '"', "'", '=', ' wx:if=', '<wxs', '</wxs>', '<!--', '-->', '&', ';', '\\', '\n', '\r\n', '<template name="', ' slot:a', '...', '?', ':', '(', ')', '[', ']', '😀', '漢', ' ', '&#x', '&#', '</', '\t', '0x', '1e']
  let out = s
  for (let i = rng.range(1, 5); i > 0; i--) {
    const pos = rng.int(out.length + 1)
    const r = rng.int(3)
    if (r === 0) out = out.slice(0, pos) + out.slice(pos + rng.range(1, 6))
    else if (r === 1) out = out.slice(0, pos) + rng.pick(dict) + out.slice(pos)
    else out = out.slice(0, pos) + rng.pick(dict) + out.slice(pos + 1)
  }
  // never cut a surrogate pair in half: the compilers take valid UTF-8
  return out.replace(/[\ud800-\udbff](?![\udc00-\udfff])|(?<![\ud800-\udbff])[\udc00-\udfff]/g, '?')
}

export async function run(ctx) {
  const { report, tier } = ctx
  const N = tier === 'thorough' ? 12000 : 1200
  const cases = []
  for (let i = 0; i < N; i++) {
    const caseSeed = ctx.rng.u32()
    const r = new Rng(caseSeed)
    const fs_ = genFileSet(r, { withInclude: false, slotReceivers: true })
    // identifiers of the full documented alphabet (`$` and `_` anywhere, digits after the first character)
    if (r.bool(0.3)) fs_.files[fs_.main].children.push({ t: 'el', tag: 'i', attrs: [{ fam: 'plain', name: 'v', value: M.ev(X.bin('+', X.id(r.pick(['cls$name', '$', '$_', '_1', 'a$', '$9x'])), X.mem(X.id('$c'), r.pick(['_d$', '$', 'x$y']))) ) }], children: [{ t: 'text', v: M.ev(X.obj([{ k: 'kv', name: r.pick(['k$', '_k', '$']), e: X.id('_e1$') }])) }] })
    // comments are documented syntax everywhere, also as the only content of an element that takes no children
    if (r.bool(0.15)) fs_.files[fs_.main].children.push({ t: 'raw', wxml: r.pick(['<slot name="footer">\n  <!-- default content -->\n</slot>', '<slot><!-- c --></slot>', '<include src="./other"><!-- c --></include>', '<import src="./other"> <!-- c --> </import>', '<template is="nosuch" data="{{ {a} }}"><!-- note --></template>']) })
    const multiline = r.bool(0.6)
    const st = { rng: r, spacing: r.bool(0.5), entities: r.bool(0.4) ? 0.2 : 0, layout: multiline, between: true, shuffleAttrs: r.bool(0.5), unquoted: true }
    let clean
    try { clean = M.printFile(fs_.files[fs_.main], st) } catch (e) { continue }
    const nodes = []
    M.walkNodes(fs_.files[fs_.main].children, (n) => nodes.push(n))
    cases.push({ id: cases.length, kind: 'clean', caseSeed, text: clean, shape: M.shapeOfNodes(fs_.files[fs_.main].children), big: nodes.length >= 20 })
    for (let k = 0; k < 2; k++) {
      let inj
      try { inj = inject(r, fs_, st) } catch (e) { if (/adjacent text/.test(e.message)) continue; throw e }
      if (inj) cases.push({ id: cases.length, kind: 'defect', caseSeed, defect: inj.kind, site: inj.site, text: inj.text, shape: inj.kind + '|' + inj.site.replace(/[^a-z<>: -]/gi, '').slice(0, 24) + '|' + (multiline ? 'ml' : 'sl') })
    }
    cases.push({ id: cases.length, kind: 'damaged', caseSeed, text: mutate(r, clean), shape: 'damaged' + (i % 500) })
  }
  for (let i = 0; i < cases.length; i += 1000) {
    const batch = cases.slice(i, i + 1000)
    const results = gevBatch('total', batch.map((c) => ({ id: c.id, kind: 'tmpl', src: c.text, path: 'p' })))
    const diags = compileMany(batch.map((c) => ({ id: c.id, files: [['p', c.text]], scripts: [], want: {} })), {})
    for (const c of batch) {
      const t = results.get(c.id)
      const dres = diags.get(c.id)
      const viol = (s_, w) => report.violation(s_, { caseSeed: c.caseSeed, kind: c.kind, defect: c.defect, site: c.site, source: c.text.length > 4000 ? c.text.slice(0, 4000) + '…' : c.text, ...w })
      if (!t || t.inconclusive || !dres || dres.inconclusive) { report.inconc((t && t.inconclusive) || (dres && dres.inconclusive) || 'no result'); continue }
      report.evals()
      if (t.crash || dres.crash) { viol('the compiler process died', { crash: t.crash || dres.crash }); continue }
      if (t.outcome !== 'ok') {
        // totality is C01's business; here it only means that no diagnostics could be observed
        if (c.kind !== 'damaged') viol(`no diagnostics observable: ${t.outcome} ${t.failures?.[0]?.msg || ''}`.slice(0, 300), { failures: t.failures })
        else report.count('damaged_not_total')
        continue
      }
      const ds = (dres.files && dres.files.p && dres.files.p.diags) || []
      // (iii) locations, for every diagnostic of every input
      for (const d of ds) {
        const why = locOk(c.text, d)
        report.cell('diagnostics_seen', d.kind, c.kind)
        if (why) { viol(`diagnostic "${d.kind}" has an invalid location ${JSON.stringify(d.loc)}: ${why}`, { diag: d }); break }
      }
      if (t.pos_desync && t.pos_desync.length) viol(`parser position out of sync with its byte cursor (${t.pos_desync[0].kind} at byte ${t.pos_desync[0].cur_index}: reported ${t.pos_desync[0].got}, recomputed ${t.pos_desync[0].want})`, { pos_desync: t.pos_desync })
      report.count('position_events_checked', t.pos_events || 0)
      if (c.kind === 'clean') {
        const bad = ds.filter((d) => d.level >= LEVEL.Warn)
        if (bad.length) viol(`documented syntax produced "${bad[0].kind}" (level ${bad[0].level}) at ${JSON.stringify(bad[0].loc)}`, { diag: bad[0] })
        if (c.big) report.shape('clean|' + c.shape)
      } else if (c.kind === 'defect') {
        const [wantKind, wantLevel] = EXPECT[c.defect]
        const hit = ds.find((d) => d.kind === wantKind && d.level >= wantLevel)
        report.cell('defects', c.defect, hit ? 'flagged' : 'missed')
        if (!hit) viol(`defect "${c.defect}" (${c.site}) was not flagged: expected "${wantKind}" at level >= ${wantLevel}, got ${JSON.stringify(ds.map((d) => d.kind + '/' + d.level))}`, {})
        report.shape('defect|' + c.shape)
      } else report.shape(c.shape)
      if (c.kind === 'defect') report.sample({ defect: c.defect, site: c.site, source: c.text.slice(0, 400), diagnostics: ds.slice(0, 4) }, 4)
    }
  }
  report.count('inputs', cases.length)
}
