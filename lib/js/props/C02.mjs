// C02 — every emitted artefact is syntactically valid JavaScript (sloppy and strict).
// Events: every string returned by the emit APIs. Oracle: the JS engine's parser (vm.Script) in both modes.
import vm from 'node:vm'
import * as X from '../expr.mjs'
import * as M from '../tmodel.mjs'
import { genFileSet, printFileSet } from '../gen.mjs'
import { compileMany } from '../kit.mjs'
import { Rng } from '../prng.mjs'

export const needsRuntime = false
export const rule = 'distinct = workload class x structural shape of the template (or ladder size / name position / literal class); non-trivial = the artefact contains generated identifiers beyond the fixed prelude'
export const assumptions = [
  'the parser of the JS engine (V8) decides validity; artefacts are parsed as scripts, once as they are and once behind a "use strict" directive',
  'precondition of the property checked, not assumed: inline <wxs> bodies and add_script bodies must parse as function bodies in both modes, otherwise the case is outside the property (counted)',
]

const ARTEFACTS = ['gen', 'groups', 'wx', 'runtime', 'globals', 'all_scripts']

function parses(src) {
  for (const [mode, text] of [['sloppy', src], ['strict', '"use strict";' + src]]) {
    try { new vm.Script(text) } catch (e) { return { ok: false, mode, error: String(e.message) } }
  }
  return { ok: true }
}
function bodyOk(body) {
  return parses('(function(require,exports,module){' + body + '\n})').ok
}

function judge(ctx, c, res) {
  const { report } = ctx
  if (!res || res.inconclusive) { report.inconc(res ? res.inconclusive : 'no result'); return }
  if (res.crash || (res.panics && res.panics.length)) { report.violation(`compiler failed (${c.cls}): ${res.panics?.[0]?.msg || 'process died'}`, { cls: c.cls, files: trunc(c.files), crash: res.crash, panics: res.panics }); return }
  // precondition: script bodies
  for (const [, body] of c.scripts || []) if (!bodyOk(body)) { report.count('precondition_fails'); return }
  for (const f of Object.values(res.files || {})) for (const [, body] of f.inline || []) if (!bodyOk(body)) { report.count('precondition_fails'); return }
  const check = (name, src) => {
    if (typeof src !== 'string') return
    report.evals()
    const r = parses(src)
    if (!r.ok) {
      report.violation(`${name} is not valid JavaScript in ${r.mode} mode (${c.cls}): ${r.error}`, { cls: c.cls, artefact: name, mode: r.mode, error: r.error, files: trunc(c.files), detail: c.detail, around: locate(src, r) })
      c.failed = true
    }
    report.cell('artefact_x_class', name, c.cls)
  }
  for (const [p, f] of Object.entries(res.files || {})) check('get_tmpl_gen_object(' + p + ')', f.gen)
  check('get_tmpl_gen_object_groups', res.groups)
  check('get_wx_gen_object_groups', res.wx)
  check('get_runtime_string', res.runtime)
  check('export_globals', res.globals)
  check('export_all_scripts', res.all_scripts)
  if (res.mon && res.mon.reserved_idents && res.mon.reserved_idents.length) report.notes.push(`identifier tap saw reserved-word candidates ${JSON.stringify(res.mon.reserved_idents)} in class ${c.cls}`)
  report.count('idents_generated', res.mon ? res.mon.idents : 0)
}
function trunc(files) { return files.map(([p, s]) => [p, s.length > 1500 ? s.slice(0, 700) + ` …(${s.length} chars)… ` + s.slice(-300) : s]) }
function locate(src, r) {
  // find the first offending position by bisecting prefixes is not meaningful for JS; show head/tail instead
  return { head: src.slice(0, 200), length: src.length }
}

function ladderCases(ctx) {
  const sizes = ctx.tier === 'thorough' ? [100, 1000, 3000, 10000, 60000, 210000] : [100, 1000, 3000]
  const out = []
  for (const n of sizes) {
    // top-scope declarations: one per element
    out.push({ cls: 'ladder-flat', detail: { n }, files: [['p', '<a/>'.repeat(n)]] })
    // `$`-private identifiers: ??, ?:, dynamic members
    const m = Math.min(n, 20000)
    out.push({ cls: 'ladder-private', detail: { n: m }, files: [['p', Array.from({ length: m }, (_, i) => `<a v="{{ a${i % 7} ?? b[c] }}" w="{{ x ? y : z[i] }}"/>`).join('')]] })
    // function arguments: nested / sibling wx:for
    out.push({ cls: 'ladder-for', detail: { n: m }, files: [['p', Array.from({ length: Math.min(m, 8000) }, () => `<a wx:for="{{l}}" wx:key="k">{{item}}{{index}}</a>`).join('') + '<b wx:for="{{l}}">'.repeat(40) + '{{item}}' + '</b>'.repeat(40)]] })
    // text nodes + binding-map entries + slots
    out.push({ cls: 'ladder-mixed', detail: { n: m }, files: [['p', Array.from({ length: Math.min(m, 6000) }, (_, i) => `<v id="{{i${i}}}" class="c {{k}}">t{{t${i % 5}}}<slot name="s${i}" v="{{q}}"/></v><template is="{{n}}" data="{{ a: ${i} }}"/>`).join('')]] })
  }
  return out
}

const EVIL = ["'", '"', '\\', '\n', '\r', ' ', ' ', '</script>', '*/', '/*', '${x}', '`', '\0', '\t', ' ', '#', '//', '\x7f', 'é', '😀', "');alert(1);('", '\\u0041', '\\']

function nameCases(ctx) {
  const out = []
  // paths: template paths, script paths, import/include targets — any string is accepted as a path
  for (const e of EVIL) {
    const p = 'dir' + e + 'x'
    out.push({ cls: 'evil-path', detail: { path: p }, files: [[p, `<wxs module="m">exports.a = 1</wxs><import src="./o${attrEsc(e)}"/><include src="o${attrEsc(e)}"/><wxs module="n" src="s${attrEsc(e)}"/><a bind:tap="{{m.a}}" change:x="{{n.f}}">{{m.a}}</a>`], ['dir' + e + 'o' + e, '<template name="t"><b/></template><c/>']], scripts: [['dir' + e + 's' + e, 'exports.f = function(){}']] })
    // static strings in every static position
    const v = attrEsc('v' + e + 'w')
    out.push({ cls: 'evil-static', detail: { value: 'v' + e + 'w' }, files: [['p', `<template name="${v}"><a/></template><a title="${v}" class="${v}" style="${v}" id="${v}" slot="${v}" data:a="${v}" mark:a="${v}" bind:a="${v}" worklet:a="${v}" generic:a="${v}" extra-attr:a="${v}" wx:for="${v}" wx:key="${v}">${textEsc('v' + e + 'w')}</a><slot name="${v}"/><template is="${v}" data="{{ a: 1 }}"/><b wx:if="${v}"/><b wx:elif="x${v}"/><a v="{{ '${jsEsc('v' + e + 'w')}' }}"/>`]] })
  }
  // module names: what the parser accepts for `module=` (a Note is produced for non-identifiers, code is still emitted)
  for (const n of ['m', '$m', '_1', 'if', 'var', 'a-b', 'a.b', "a'b", 'a"b', 'a b', '1a', 'é', 'a\\b', 'a\nb', 'a*/b', 'default', 'arguments', 'eval', 'yield', 'let', 'static', 'await', 'async', 'of', 'NaN', 'undefined', 'Object', 'R', 'D', 'G', 'Q', 'X']) {
    out.push({ cls: 'module-name', detail: { module: n }, files: [['p', `<wxs module="${attrEsc(n)}">exports.a = 1</wxs><a v="{{ ${/^[A-Za-z_$][\w$]*$/.test(n) ? n : 'm'}.a }}"/>`]] })
  }
  // scope names of wx:for / slot values
  for (const n of ['if', 'var', 'R', 'C', 'D', 'U', 'N', 'T', 'E', 'arguments', 'eval', 'let', 'yield', 'undefined', '$x', 'a-b', "a'b"]) {
    out.push({ cls: 'scope-name', detail: { name: n }, files: [['p', `<a wx:for="{{l}}" wx:for-item="${attrEsc(n)}" wx:for-index="i_${attrEsc(n)}">{{ ${/^[A-Za-z_$][\w$]*$/.test(n) ? n : 'x'} }}</a><c><d slot:v="${attrEsc(n)}">{{v}}</d></c>`]] })
  }
  // names of slot values (`slot:NAME`): attribute-name characters, keywords (a warning at most; code is still emitted)
  for (const n of ['a', 'if', 'new', 'var', 'a-b', 'a.b', 'a...', '1a', 'é', 'a$', 'a_b', 'a:b', 'class', 'R', 'V', 'W', 'X', 'constructor', '__proto__', 'a+b', 'a*/b', '-', '.']) {
    out.push({ cls: 'slot-value-name', detail: { name: n }, files: [['p', `<c><d slot:${n}>{{ ${/^[A-Za-z_$][\w$]*$/.test(n) && !['if', 'new', 'var', 'class'].includes(n) ? n : 'x'} }}</d><e slot:${n}="v" slot:z>{{v}}{{z}}</e></c>`]] })
  }
  // data field names that are JS keywords or runtime letters
  for (const n of ['if', 'var', 'new', 'delete', 'in', 'class', 'function', 'R', 'C', 'D', 'U', 'K', 'A', 'X', 'Y', 'Z', 'P', 'Q', '__proto__', 'constructor', 'prototype', '$', '_', 'a$b', '$1', 'm²', 'x½', 'Ⓐ', 'ª', 'ⅷ', 'é', '漢', 'a\u200cb']) {
    out.push({ cls: 'field-name', detail: { name: n }, files: [['p', `<a v="{{ ${n} }}" w="{{ x.${n} }}" u="{{ {${n}: 1, ...o} }}" t="{{ {${n}} }}">{{ ${n} ? ${n} : 0 }}</a><b wx:if="{{ ${n} }}"/><template is="t" data="{{ ${n} }}"/>`]] })
  }
  // extra runtime script and scripts with awkward bodies (valid JS)
  out.push({ cls: 'scripts', files: [['p', '<wxs module="m" src="./s"/>{{m.f()}}']], scripts: [['s', 'exports.f = function(){ return "}" + `${1}` + /[}]/.source } // trailing comment'], ['t', '/* block */ var a = 1\n// line comment without newline at the end']] })
  out.push({ cls: 'scripts', files: [['p', '<wxs module="m">exports.f = 1 // comment</wxs><wxs module="n">/* c */</wxs><wxs module="o"></wxs>{{m.f}}']] })
  // the documented extra runtime script ("valid JavaScript statements, ended by semicolon"), with and without scripts in the group
  for (const extra of ['var extra=1;', 'var a={};', ';', 'if(1){};']) {
    out.push({ cls: 'extra-runtime', detail: { extra }, files: [['p', '<a>{{b}}</a>']], extra_runtime: extra })
    out.push({ cls: 'extra-runtime', detail: { extra }, files: [['p', '<wxs module="m">exports.f = 1</wxs><a>{{m.f}}</a>']], scripts: [['s', 'exports.f = 1']], extra_runtime: extra })
  }
  return out
}
function attrEsc(s) { return s.replace(/&/g, '&amp;').replace(/"/g, '&quot;').replace(/\{\{/g, '&#123;{') }
function textEsc(s) { return s.replace(/&/g, '&amp;').replace(/</g, '&lt;').replace(/\{\{/g, '&#123;{') }
function jsEsc(s) { return Array.from(s).map((c) => (c === "'" || c === '\\' ? '\\' + c : c === '"' ? '\\x22' : c === '\n' ? '\\n' : c === '\r' ? '\\r' : c === '\0' ? '\\x00' : c === ' ' ? '\\u2028' : c === ' ' ? '\\u2029' : c)).join('') }

function literalCases() {
  const lits = ['0', '1', '0.5', '.5', '5.', '1e21', '1e-7', '1e308', '1e309', '1e999', '0x10', '0xfffffffffffffffffffff', '017', '0777777777777777777777777', '99999999999999999999999', '9007199254740993', '1.7976931348623157e308', '5e-324', '1e-400', '0e0', '00', '08', '09.5', '123456789012345678901234567890.5']
  return [{ cls: 'literals', files: [['p', lits.map((l, i) => `<a v${i}="{{ ${l} }}" w${i}="{{ -${l} }}" x${i}="{{ ${l}.x }}"/>`).join('')]] }]
}

function mutate(rng, s) {
  // damage valid WXML: diagnostics must not make the artefacts invalid
  const ops = rng.range(1, 4)
  const dict = ['<', '>', '/', '{{', '}}', '"', "'", '=', ' wx:if=', '<wxs', '</wxs>', '<!--', '-->', '&', ';', '\\', '\n', '<template name="', ' slot:a', '...', '?', ':', '(', ')', '[', ']']
  let out = s
  for (let i = 0; i < ops; i++) {
    const pos = rng.int(out.length + 1)
    const r = rng.int(3)
    if (r === 0) out = out.slice(0, pos) + out.slice(pos + rng.range(1, 6))
    else if (r === 1) out = out.slice(0, pos) + rng.pick(dict) + out.slice(pos)
    else out = out.slice(0, pos) + rng.pick(dict) + out.slice(pos + 1)
  }
  return out
}

/** Finding recorded by its witness only: a duplicated `__proto__` key is accepted (Note) and emitted twice. */
function runFindingWitnesses(ctx) {
  const { report } = ctx
  const want = { gen: true, groups: true }
  const res = compileMany([{ id: 0, files: [['p', '<div a="{{ {__proto__: a, __proto__: b} }}"/>']], scripts: [], want }], want).get(0)
  const r = res && typeof res.groups === 'string' ? parses(res.groups) : null
  if (r && !r.ok && /__proto__/.test(r.error)) report.knownHit('duplicated-proto-key-emitted-twice', '`<div a="{{ {__proto__: a, __proto__: b} }}"/>` gets a Note ("duplicated name") and every artefact then is a SyntaxError ("Duplicate __proto__ fields are not allowed in object literals"); other duplicated keys are valid JavaScript')
  else report.notes.push('STALE-FINDING duplicated-proto-key-emitted-twice: the recorded witness no longer reproduces')
}

export async function run(ctx) {
  if (ctx.shard === 0) runFindingWitnesses(ctx)
  const { report, tier, shard, nshards } = ctx
  const fixed = [...ladderCases(ctx), ...nameCases(ctx), ...literalCases()]
  const cases = fixed.filter((_, i) => i % nshards === shard)
  const N = tier === 'thorough' ? 6000 : 700
  for (let i = 0; i < N; i++) {
    const r = new Rng(ctx.rng.u32())
    const fs_ = genFileSet(r, { withModule: r.bool(0.5) })
    let sources
    try { sources = printFileSet(fs_, { rng: r, spacing: r.bool(0.3), entities: 0.1, between: true }) } catch (e) { continue }
    cases.push({ cls: 'generated', files: sources, shape: M.shapeOfNodes(fs_.files[fs_.main].children) })
    if (r.bool(0.7)) cases.push({ cls: 'damaged', files: sources.map(([p, s]) => [p, mutate(r, s)]), shape: 'd' + i })
  }
  cases.forEach((c, i) => { c.id = i })
  const want = { gen: true, groups: true, wx: true, runtime: true, globals: true, all_scripts: true, deps: true }
  for (let i = 0; i < cases.length; i += 200) {
    const batch = cases.slice(i, i + 200)
    const results = compileMany(batch.map((c) => ({ id: c.id, files: c.files, scripts: c.scripts || [], want, ...(c.extra_runtime ? { extra_runtime: c.extra_runtime } : {}) })), want)
    for (const c of batch) {
      judge(ctx, c, results.get(c.id))
      report.shape(c.cls + '|' + (c.shape || JSON.stringify(c.detail || '')))
      if (c.cls !== 'generated' && c.cls !== 'damaged') report.sample({ class: c.cls, detail: c.detail, files: trunc(c.files) }, 4)
    }
  }
  report.count('cases', cases.length)
}
