// C13 — cross-file references resolve by normalised path and are reported.
// (A) exhaustive (base, rel) pairs: what direct_dependencies / script_dependencies report (gev paths) vs the
//     reference resolver; (B) multi-file groups with per-file sentinels rendered on the real runtime vs the
//     reference renderer, over all insertion orders and through import_group.
import { spawnSync } from 'node:child_process'
import * as X from '../expr.mjs'
import * as M from '../tmodel.mjs'
import { Renderer, normalizeObserved, refResolve, stripSuffix } from '../ref.mjs'
import { compileMany, instantiate, allDiags, snap, LEVEL } from '../kit.mjs'
import { diffSnap, showSnap } from '../rt.mjs'
import { GEV } from '../gev.mjs'
import { Rng } from '../prng.mjs'

export const rule = 'distinct = (A) the (base, rel, suffix) pair; (B) directory layout x reference spelling x insertion order; non-trivial = the pair contains `.`/`..`/a suffix/a leading `/`, or the group has >=2 files'
export const assumptions = [
  'reference resolver: relative to the referrer\'s directory (root for a leading `/`), `.` dropped, `..` pops and is clamped at the root, optional .wxml/.wxs suffix ignored',
  'pairs whose base or rel contains an empty segment (`a//b`, trailing `/`), or whose base ends in a `.`/`..` segment (a directory, not a file), are judged for internal consistency only: the property text does not say what they denote',
]
export const exhaustive = (ctx) => true

function partA(ctx) {
  const { report, shard, nshards, tier } = ctx
  const maxSegs = tier === 'thorough' ? 4 : 3
  const p = spawnSync(GEV, ['paths', String(maxSegs), String(shard), String(nshards)], { maxBuffer: 1 << 30, encoding: 'utf8' })
  if (p.status !== 0) { report.inconc('gev paths failed: ' + (p.stderr || '').slice(0, 300)); return }
  let n = 0
  for (const line of p.stdout.split('\n')) {
    if (!line) continue
    const [base, rel, suffix, deps, sdeps] = line.split('\t')
    n++
    const d = JSON.parse(deps)
    const sd = JSON.parse(sdeps)
    const hasEmpty = (s) => s.split('/').some((x, i, a) => x === '' && !(i === 0 && a.length > 1 && s.startsWith('/')))
    const emptyRel = rel.replace(/^\//, '') === ''
    report.evals()
    if (emptyRel) { report.count('A_empty_reference'); continue }
    if (d.length !== 2 || sd.length !== 1) { report.violation(`dependency queries for base=${JSON.stringify(base)} rel=${JSON.stringify(rel)} list ${JSON.stringify(d)} / ${JSON.stringify(sd)} (expected import+include and one script)`, { base, rel, suffix, deps: d, sdeps: sd }); continue }
    // what remains of the written suffix after the one optional suffix has been ignored
    const extT = suffix === '2' ? '.wxml' : suffix === '3' ? '.wxs' : ''
    const extS = suffix === '2' ? '.wxs' : suffix === '3' ? '.wxml' : ''
    const cut = (x, ext) => (ext && x.endsWith(ext) ? x.slice(0, -ext.length) : ext ? null : x)
    if (d[0] !== d[1] || cut(d[0], extT) === null || cut(d[0], extT) !== cut(sd[0], extS)) { report.violation(`import, include and wxs resolve the same reference differently: ${JSON.stringify(d)} / ${JSON.stringify(sd)}`, { base, rel, suffix }); continue }
    // a referrer whose own last segment is `.` / `..` names a directory, not a file: its "directory" is not defined
    const baseLast = base.split('/').pop()
    // (so does a referrer path with empty segments; in the reference itself an empty segment, as in `x//y`, names nothing)
    if (hasEmpty(base) || baseLast === '.' || baseLast === '..') { report.count('A_consistency_only'); continue }
    // (a last segment `.`/`..` followed by a kept suffix is an ordinary name such as `..wxml`)
    const relLast = rel.split('/').pop()
    if (extT && (relLast === '.' || relLast === '..')) { report.count('A_consistency_only'); continue }
    const want = refResolve(base, rel + extT)
    if (d[0] !== want) report.violation(`base=${JSON.stringify(base)} rel=${JSON.stringify(rel)}${['', ' (+suffix)', ' (+suffix twice)', ' (+the other suffix)'][+suffix]} resolved to ${JSON.stringify(d[0])}, the normalised path is ${JSON.stringify(want)}`, { base, rel, suffix, got: d[0], want })
    if (/(^|\/)\.\.?(\/|$)/.test(base + '/' + rel) || suffix !== '0' || rel.startsWith('/')) report.shape('A|' + base + '|' + rel + '|' + suffix)
    report.cell('A_pairs', rel.startsWith('/') ? 'absolute' : 'relative', ['plain', 'suffix', 'suffix-twice', 'other-suffix'][+suffix])
  }
  report.count('A_pairs', n)
}

// ---- part B
const LAYOUTS = [
  ['main', 'a', 'b', 'c'], ['d/main', 'd/a', 'b', 'd/e/c'], ['d/e/main', 'd/a', 'd/e/b', 'c'], ['main', 'x/y/a', 'x/b', 'x/y/z/c'],
]

function spellRef(rng, from, to, suffix) {
  // a relative (or absolute) spelling of `to` as seen from `from`
  const fromDir = from.split('/').slice(0, -1)
  const toSegs = to.split('/')
  let s
  const r = rng.int(6)
  if (r === 0) s = '/' + to
  else {
    let i = 0
    while (i < fromDir.length && i < toSegs.length - 1 && fromDir[i] === toSegs[i]) i++
    const up = fromDir.length - i
    s = '../'.repeat(up) + toSegs.slice(i).join('/')
    if (r === 1) s = './' + s
    if (r === 2 && fromDir.length) s = '../' + fromDir[fromDir.length - 1] + '/' + s
    if (r === 3) s = toSegs.length - i > 1 && up === 0 ? toSegs.slice(i, -1).join('/') + '/./' + toSegs[toSegs.length - 1] : './' + s
    if (r === 4) s = '../'.repeat(fromDir.length + 2) + to // clamped at the root
  }
  // (an empty segment names nothing: `x//y` is `x/y`)
  if (rng.bool(0.1) && s.includes('/')) { const k = s.indexOf('/', rng.int(s.length)); if (k >= 0) s = s.slice(0, k) + '/' + s.slice(k) }
  return rng.bool(0.5) ? s + suffix : s
}

function genGroup(rng) {
  const layout = rng.pick(LAYOUTS)
  const [main, a, b, c] = layout
  const files = {}
  const scripts = {}
  const T = ['t', 'u']
  const mkDefs = (p, names) => names.map((n) => ({ name: n, children: [{ t: 'text', v: M.sv(`[${p}:${n}]`) }] }))
  // leaf files define overlapping template names; main imports some of them in random order
  files[c] = { path: c, imports: [], wxs: [], defs: mkDefs(c, ['t', 'u', 'v']), children: [{ t: 'text', v: M.sv(`[${c}]`) }] }
  files[b] = { path: b, imports: rng.bool(0.5) ? [spellRef(rng, b, c, '.wxml')] : [], wxs: [], defs: mkDefs(b, rng.bool(0.5) ? ['t'] : ['t', 'u']), children: [{ t: 'text', v: M.sv(`[${b}]`) }, ...(rng.bool(0.5) ? [{ t: 'include', src: spellRef(rng, b, c, '.wxml') }] : [])] }
  const sa = 'lib/' + a.replace(/\//g, '_') + '_s'
  scripts[sa] = `exports.tag = "S:${sa}"; exports.dep = require(${JSON.stringify(spellRef(rng, sa, 'lib/common', ''))}).tag`
  scripts['lib/common'] = 'exports.tag = "S:lib/common"'
  files[a] = { path: a, imports: [], wxs: [{ module: 'm', src: spellRef(rng, a, sa, '.wxs') }], defs: mkDefs(a, ['u']), children: [{ t: 'text', v: M.mv(`[${a}]`, X.mem(X.id('m'), 'tag'), X.mem(X.id('m'), 'dep')) }, { t: 'el', tag: 'q', attrs: [], children: [{ t: 'tref', is: M.sv('u'), data: null }] }] }
  const importTargets = rng.shuffle([a, b, c]).slice(0, rng.range(1, 3))
  // the same file imported again later (usually spelt differently): "later imports before earlier ones" counts it as the later one
  if (rng.bool(0.35)) importTargets.push(rng.pick(importTargets))
  const localDefs = rng.bool(0.4) ? mkDefs(main, [rng.pick(['t', 'u'])]) : []
  const children = [{ t: 'text', v: M.sv(`[${main}]`) }]
  for (const n of ['t', 'u', 'v', 'w']) children.push({ t: 'el', tag: 'r', attrs: [{ fam: 'plain', name: 'n', value: M.sv(n) }], children: [{ t: 'tref', is: rng.bool(0.5) ? M.sv(n) : M.ev(X.str(n)), data: null }] })
  for (const inc of rng.shuffle([a, b, c]).slice(0, rng.range(1, 2))) children.push({ t: 'el', tag: 'i', attrs: [], children: [{ t: 'include', src: spellRef(rng, main, inc, '.wxml') }] })
  const sm = 'lib/main_s'
  scripts[sm] = `exports.tag = "S:${sm}"`
  // an inline module next to the external one, in either order: each name keeps its own module
  const wxsMain = [{ module: 'mm', src: spellRef(rng, main, sm, '.wxs') }]
  const inlineMod = rng.bool(0.5)
  if (inlineMod) { const w = { module: 'mi', code: `exports.tag = "I:${main}"` }; if (rng.bool(0.6)) wxsMain.unshift(w); else wxsMain.push(w) }
  files[main] = { path: main, imports: importTargets.map((t) => spellRef(rng, main, t, '.wxml')), wxs: wxsMain, defs: localDefs, children: [...children, { t: 'text', v: inlineMod ? M.mv('', X.mem(X.id('mm'), 'tag'), '|', X.mem(X.id('mi'), 'tag')) : M.ev(X.mem(X.id('mm'), 'tag')) }] }
  // the same text node rule as everywhere: no adjacent text nodes
  return { files, scripts, main, layout }
}

function permutations(arr) {
  if (arr.length <= 1) return [arr]
  const out = []
  arr.forEach((x, i) => { for (const p of permutations([...arr.slice(0, i), ...arr.slice(i + 1)])) out.push([x, ...p]) })
  return out
}

function partB(ctx) {
  const { ge, report, tier } = ctx
  const N = tier === 'thorough' ? 300 : 40
  const cases = []
  for (let i = 0; i < N; i++) {
    const caseSeed = ctx.rng.u32()
    const r = new Rng(caseSeed)
    const g = genGroup(r)
    const srcOf = {}
    for (const f of Object.values(g.files)) srcOf[f.path] = M.printFile(f, { rng: r })
    const paths = Object.keys(g.files)
    const perms = permutations(paths)
    const chosen = tier === 'thorough' ? perms : r.shuffle(perms).slice(0, 6)
    chosen.forEach((order, k) => {
      const scriptOrder = r.shuffle(Object.entries(g.scripts))
      const split = k % 3 === 2 ? r.range(1, order.length - 1) : undefined
      cases.push({ id: cases.length, caseSeed, g, order, files: order.map((p) => [p, srcOf[p]]), scripts: scriptOrder, split, script_split: split !== undefined ? r.int(scriptOrder.length + 1) : undefined })
    })
  }
  for (let i = 0; i < cases.length; i += 300) {
    const batch = cases.slice(i, i + 300)
    const results = compileMany(batch.map((c) => ({ id: c.id, files: c.files, scripts: c.scripts, split: c.split, script_split: c.script_split, want: { groups: true, deps: true } })), { groups: true, deps: true })
    for (const c of batch) {
      const res = results.get(c.id)
      const viol = (s_, w) => report.violation(s_, { caseSeed: c.caseSeed, order: c.order, import_group_split: c.split, files: c.files, scripts: c.scripts, ...w })
      if (!res || res.inconclusive) { report.inconc(res ? res.inconclusive : 'no result'); continue }
      if (res.crash || (res.panics && res.panics.length)) { viol('compiler failed', { crash: res.crash, panics: res.panics }); continue }
      const bad = allDiags(res).filter((d) => d.level >= LEVEL.Warn)
      if (bad.length) { viol(`documented syntax produced diagnostic "${bad[0].kind}"`, { diags: bad }); continue }
      // dependency queries
      for (const f of Object.values(c.g.files)) {
        const wantDeps = [...f.imports.map((s) => refResolve(f.path, stripSuffix(s, '.wxml'))), ...collectIncludes(f).map((s) => refResolve(f.path, stripSuffix(s, '.wxml')))]
        const wantS = (f.wxs || []).filter((w) => w.src !== undefined).map((w) => refResolve(f.path, stripSuffix(w.src, '.wxs')))
        const got = res.files[f.path]
        report.evals()
        if (JSON.stringify(got.deps) !== JSON.stringify(wantDeps)) viol(`direct_dependencies(${f.path}) = ${JSON.stringify(got.deps)}, the resolved targets are ${JSON.stringify(wantDeps)}`, {})
        if (JSON.stringify(got.sdeps) !== JSON.stringify(wantS)) viol(`script_dependencies(${f.path}) = ${JSON.stringify(got.sdeps)}, the resolved targets are ${JSON.stringify(wantS)}`, {})
      }
      // rendering
      const want = new Renderer({ files: c.g.files, scripts: c.g.scripts }).renderMain(c.g.main, {})
      const { comp, tr, error } = instantiate(ge, res.groups, c.g.main, {}, { keepEvents: false })
      report.evals()
      if (error) { viol(`generated code threw: ${String(error.message || error).slice(0, 200)}`, { error: String(error.stack || error).slice(0, 600) }); continue }
      const got = normalizeObserved(snap(ge, comp, tr, {}))
      const d = diffSnap(got, want)
      if (d) viol(`a cross-file reference linked to the wrong target: ${d}`.slice(0, 400), { got: showSnap(got), want: showSnap(want) })
      report.shape('B|' + c.g.layout.join(',') + '|' + c.order.join(',') + '|' + (c.split ?? '-'))
      report.cell('B_groups', c.split !== undefined ? 'import_group' : 'direct', 'n')
      report.sample({ files: c.files, scripts: c.scripts, order: c.order }, 2)
    }
  }
  report.count('B_groups', cases.length)
}
function collectIncludes(f) {
  const out = []
  M.walkNodes(f.children, (n) => { if (n.t === 'include') out.push(n.src) })
  for (const d of f.defs || []) M.walkNodes(d.children, (n) => { if (n.t === 'include') out.push(n.src) })
  return out
}

export async function run(ctx) {
  partA(ctx)
  partB(ctx)
}
