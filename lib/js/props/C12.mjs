// C12 — static strings reach the runtime character for character.
// Events: string arguments of T, E (tag, generics, slot), R.* (names and static values), F key, S name, keys of
// the group list and of the template table. Oracle: UTF-16 equality with the string the generator intended (the
// generator owns the decoded string and chooses its spelling: raw, named / decimal / hex entity, JS escape).
import fs from 'node:fs'
import path from 'node:path'
import * as X from '../expr.mjs'
import { compileMany, instantiate, allDiags, LEVEL } from '../kit.mjs'
import { evalGroups, VERIF } from '../rt.mjs'
import { Rng } from '../prng.mjs'

export const rule = 'distinct = (code point class, successor, embedding context, spelling); non-trivial = the string needs an escape or entity in its embedding, or is a name position'
export const assumptions = [
  'named entities come from Python\'s html.entities.html5 table (2125 names ending in ";"), independent of the Rust `entities` crate',
  'string literals never spell NUL as \\\\0 before a digit and never use surrogate-pair escapes (JavaScript semantics ambiguous / documented as illegal)',
]
export const exhaustive = (ctx) => ctx.tier === 'thorough'

const ENT = JSON.parse(fs.readFileSync(path.join(VERIF, 'lib/js/data/html5_entities.json'), 'utf8'))
const BY_CHAR = new Map()
for (const [name, v] of Object.entries(ENT)) { if (!BY_CHAR.has(v)) BY_CHAR.set(v, []); BY_CHAR.get(v).push(name) }

const SUCC = ['', '0', '7', 'a', 'F', '"', "'", '\\', '{', '}', 'u', ';', '#', 'x', '\n', '\r']

/** hexadecimal digits in lower, upper or mixed case (all are the same number) */
function hexCase(h, k) {
  const m = (k >> 2) % 3
  if (m === 0) return h
  if (m === 1) return h.toUpperCase()
  return Array.from(h).map((c, i) => (i % 2 ? c.toUpperCase() : c)).join('')
}

function spellHtml(s, quote, mode, k) {
  // mode 0: raw where legal; 1: named entity if any; 2: decimal; 3: hex
  let out = ''
  const cps = Array.from(s)
  for (let i = 0; i < cps.length; i++) {
    const ch = cps[i]
    const next = cps[i + 1]
    const cp = ch.codePointAt(0)
    let must = ch === '&' || (ch === '{' && (next === '{' || out.endsWith('{'))) || (quote === null && ch === '<') || (quote !== null && ch === quote)
    if (i === 1 && !must && mode === 0) { out += ch; continue }
    if (!must && (mode === 0 || i !== 1)) { out += ch; continue }
    const names = BY_CHAR.get(ch)
    const m = must && mode === 0 ? 1 + (k % 3) : mode
    if (m === 1 && names) out += '&' + names[k % names.length] + ';'
    else if (m === 2 || (m === 1 && !names && k % 2 === 0)) out += '&#' + cp + ';'
    else out += '&#x' + hexCase(cp.toString(16), k) + ';'
  }
  return out
}

function spellJs(s, k) {
  // a JS/WXML string literal, quoted with ' (the attribute is quoted with ")
  let out = "'"
  const cps = Array.from(s)
  for (let i = 0; i < cps.length; i++) {
    const ch = cps[i]
    const cp = ch.codePointAt(0)
    const nextDigit = i + 1 < cps.length && /[0-9]/.test(cps[i + 1])
    const mode = i === 0 ? k % 3 : 0 // the spelling variation applies to the code point under test
    let esc = null
    if (ch === "'" || ch === '\\') esc = '\\' + ch
    else if (ch === '"') esc = '\\x22' // the attribute is delimited by the double quote
    else if (ch === '\n') esc = '\\n'
    else if (ch === '\r') esc = '\\r'
    else if (cp === 0x2028 || cp === 0x2029) esc = '\\u' + hexCase(cp.toString(16), k)
    else if (cp === 0) esc = nextDigit ? '\\x00' : '\\0'
    else if (mode === 1 && cp <= 0xff) esc = '\\x' + hexCase(cp.toString(16).padStart(2, '0'), k)
    else if (mode === 2 && cp <= 0xffff && !(cp >= 0xd800 && cp <= 0xdfff)) esc = '\\u' + hexCase(cp.toString(16).padStart(4, '0'), k)
    // an astral character as a surrogate pair of escapes, or as a code point escape
    else if (mode === 1 && cp > 0xffff) esc = '\\u' + hexCase(ch.charCodeAt(0).toString(16), k) + '\\u' + hexCase(ch.charCodeAt(1).toString(16), k >> 1)
    else if (mode === 2 && cp > 0xffff) esc = '\\u{' + hexCase(cp.toString(16), k) + '}'
    else if (mode === 1) esc = { 9: '\\t', 8: '\\b', 12: '\\f', 11: '\\v' }[cp] || null
    out += esc === null ? ch : esc
  }
  return out + "'"
}

function* codePoints(ctx) {
  const { tier, seed } = ctx
  if (tier === 'thorough') {
    for (let c = 0; c <= 0x10ffff; c++) if (c < 0xd800 || c > 0xdfff) yield c
    return
  }
  for (let c = 0; c < 0x3000; c++) yield c
  // category boundaries of Rust's Debug escaping and of UTF-8 / UTF-16 encodings
  for (const c of [0xd7ff, 0xe000, 0xf8ff, 0xfeff, 0xfffd, 0xfffe, 0xffff, 0x10000, 0x10001, 0x1f600, 0x1fffe, 0x2fffe, 0xe0000, 0xe0001, 0xe01ef, 0xf0000, 0xffffd, 0x100000, 0x10fffd, 0x10fffe, 0x10ffff, 0x3000, 0x3001, 0x303f, 0x4e00, 0x9fff, 0xac00, 0xfb00, 0xfe00, 0xfe0f, 0xff01, 0xffe0]) yield c
  const r = new Rng(seed + 77)
  for (let i = 0; i < 20000; i++) { let c = r.int(0x110000); if (c >= 0xd800 && c <= 0xdfff) c = 0x1f000 + (c & 0xff); yield c }
}

function stringsFor(ctx) {
  // enumerates (index, string) for this shard
  const out = []
  let k = 0
  for (const c of codePoints(ctx)) {
    for (let si = 0; si < SUCC.length; si++) {
      const idx = k++
      if (idx % ctx.nshards !== ctx.shard) continue
      const kk = (Math.imul(c, 31) + si * 7 + (c >>> 4)) >>> 0 // kk selects the spelling: varies with the code point and the successor
      // ASCII code points (where every special case of the parser lives) are spelt in all four ways with every successor
      if (c < 0x80) for (let m = 0; m < 4; m++) out.push({ s: String.fromCodePoint(c) + SUCC[si], c, si, k: (kk & ~3) + m })
      else out.push({ s: String.fromCodePoint(c) + SUCC[si], c, si, k: kk })
    }
  }
  return out
}

function classOf(c) {
  if (c < 0x20) return 'C0'
  if (c < 0x7f) return 'ascii'
  if (c < 0xa0) return 'C1'
  if (c < 0x800) return '2-byte'
  if (c < 0x10000) return '3-byte'
  return 'astral'
}

function judgeStrings(ctx, items) {
  const { ge, report } = ctx
  const PER = 4000
  const batches = []
  for (let i = 0; i < items.length; i += PER) batches.push(items.slice(i, i + PER))
  const toSrc = (b) => b.map((it, j) => {
    const mode = it.k % 4
    return `<x a="${spellHtml('|' + it.s + '|', '"', mode, it.k).slice(0)}" b="{{ ${spellJs(it.s, it.k)} }}">${spellHtml('|' + it.s + '|', null, mode, it.k)}</x>`
  }).join('')
  for (let bi = 0; bi < batches.length; bi += 40) {
    const group = batches.slice(bi, bi + 40)
    const results = compileMany(group.map((b, i) => ({ id: i, files: [['p', toSrc(b)]], scripts: [] })))
    group.forEach((b, i) => {
      const res = results.get(i)
      const src = () => toSrc(b)
      if (!res || res.inconclusive) { report.inconc(res ? res.inconclusive : 'no result'); return }
      if (res.crash || (res.panics && res.panics.length)) { report.violation('compiler failed on a static-string template', { first: b[0].s.codePointAt(0), crash: res.crash, panics: res.panics }); return }
      const bad = allDiags(res).filter((d) => d.level >= LEVEL.Warn)
      if (bad.length) {
        const line = src()
        report.violation(`static strings produced diagnostic "${bad[0].kind}" near ${JSON.stringify(line.slice(Math.max(0, bad[0].loc[1] - 30), bad[0].loc[1] + 20))}`, { diag: bad[0], firstCodePoint: b[0].c })
        return
      }
      const { comp, tr, error } = instantiate(ge, res.groups, 'p', {}, {})
      if (error) { report.violation(`generated code threw: ${String(error.message || error).slice(0, 200)}`, { firstCodePoint: b[0].c, lastCodePoint: b[b.length - 1].c }); return }
      const elems = []
      for (const [node, info] of tr.info) if (info.tag === 'x') elems.push(node)
      const texts = tr.events.filter((e) => e.op === 'T').map((e) => e.text)
      if (elems.length !== b.length || texts.length !== b.length) { report.violation(`element/text count differs: ${elems.length}/${texts.length} for ${b.length} strings (a static string broke the structure)`, { firstCodePoint: b[0].c, lastCodePoint: b[b.length - 1].c }); return }
      b.forEach((it, j) => {
        const ch = tr.chan.get(elems[j])
        const want = '|' + it.s + '|'
        const obs = { attr: ch && ch.r.a ? ch.r.a[0] : undefined, literal: ch && ch.r.b ? ch.r.b[0] : undefined, text: texts[j] }
        const exp = { attr: want, literal: it.s, text: want }
        for (const ctxName of ['attr', 'literal', 'text']) {
          report.evals()
          if (obs[ctxName] !== exp[ctxName]) report.violation(`U+${it.c.toString(16).toUpperCase()} followed by ${JSON.stringify(SUCC[it.si])} in a static ${ctxName}: arrived as ${X.show(obs[ctxName])}, intended ${X.show(exp[ctxName])}`, { codePoint: it.c, successor: SUCC[it.si], context: ctxName, spellingMode: it.k % 4 })
          report.shape(classOf(it.c) + '|' + it.si + '|' + ctxName + '|' + (it.k % 4))
        }
        report.cell('codepoint_class_x_context', classOf(it.c), 'strings')
      })
    })
  }
}

/** A raw `<` that cannot start a tag is text (`1 < 2`): so is `<!` that starts neither a comment nor a meta tag. */
function judgeRawAngles(ctx) {
  const { ge, report } = ctx
  const texts = ['1 < 2', 'a<1', '<>', 'a< b', '1 <! 2', 'a<!>b', 'x <!- y', 'a<!', '<!1>', 'q <! -- z', '< !x', 'a<=b<!=c']
  const src = texts.map((t) => `<x>|${t}|</x>`).join('')
  const res = compileMany([{ id: 0, files: [['p', src]], scripts: [] }]).get(0)
  if (!res || res.inconclusive) { report.inconc(res ? res.inconclusive : 'no result'); return }
  if (res.panics?.length) { report.violation('compiler failed on raw angle brackets in text', { panics: res.panics }); return }
  const { tr, error } = instantiate(ge, res.groups, 'p', {}, {})
  if (error) { report.violation('generated code threw on raw angle brackets in text: ' + error.message, {}); return }
  const got = tr.events.filter((e) => e.op === 'T').map((e) => e.text)
  texts.forEach((t, j) => {
    report.evals()
    report.shape('raw-angle|' + t.replace(/[a-z0-9]/g, 'x'))
    if (got[j] !== '|' + t + '|') report.violation(`static text ${JSON.stringify('|' + t + '|')} arrived as ${X.show(got[j])} (${got.length} text nodes for ${texts.length} elements)`, { text: t })
  })
}

function judgeEntities(ctx) {
  const { ge, report } = ctx
  const names = Object.keys(ENT).sort()
  const src = names.map((n) => `<x a="&${n};0">&${n};a</x>`).join('')
  const res = compileMany([{ id: 0, files: [['p', src]], scripts: [] }]).get(0)
  if (!res || res.panics?.length) { report.violation('compiler failed on the entity table', { panics: res && res.panics }); return }
  const { tr, error } = instantiate(ge, res.groups, 'p', {}, {})
  if (error) { report.violation('generated code threw on the entity table: ' + error.message, {}); return }
  const elems = []
  for (const [node, info] of tr.info) if (info.tag === 'x') elems.push(node)
  const texts = tr.events.filter((e) => e.op === 'T').map((e) => e.text)
  names.forEach((n, j) => {
    report.evals(2)
    const a = tr.chan.get(elems[j])?.r.a?.[0]
    if (a !== ENT[n] + '0') report.violation(`&${n}; in an attribute arrived as ${X.show(a)}, HTML5 says ${X.show(ENT[n] + '0')}`, { entity: n })
    if (texts[j] !== ENT[n] + 'a') report.violation(`&${n}; in text arrived as ${X.show(texts[j])}, HTML5 says ${X.show(ENT[n] + 'a')}`, { entity: n })
    report.shape('entity|' + (/\d/.test(n) ? 'with-digit' : 'letters') + '|' + Array.from(ENT[n]).length)
  })
  report.count('named_entities', names.length)
}

function judgeNames(ctx) {
  // name positions over their admissible alphabets; observed at the protocol boundary / in the group tables
  const { ge, report } = ctx
  const identTail = 'abcxyzABCXYZ0189_-.'
  const names = []
  for (const a of 'abzAZ_') for (const b of identTail) for (const c of ['', 'q', '-', '9']) names.push(a + b + c)
  const valueChars = ['a', ' ', '"', "'", '\\', '\n', '\t', '<', '>', '&', '{', '}', '/', '*', '$', '`', '\0', '\x7f', ' ', ' ', ' ', '﻿', 'é', '漢', '😀', '\u{10ffff}', '%', '#', ';', ':', '=']
  const values = []
  for (const a of valueChars) for (const b of ['', '0', 'x', a]) values.push('v' + a + b)
  const N = Math.max(names.length, values.length)
  let src = ''
  const plan = []
  for (let i = ctx.shard; i < N; i += ctx.nshards) {
    const n = names[i % names.length]
    const v = values[i % values.length]
    const sv_ = spellHtml(v, '"', i % 4, i)
    const lower = n.toLowerCase()
    src += `<template name="${sv_}">n</template>`
    src += `<t-${lower} ${n}="1" data:${n}="2" mark:${n}="3" bind:${n}="h" generic:${lower}="${sv_}" extra-attr:${n}="${sv_}" worklet:${lower}="${sv_}" slot="${sv_}"/><slot name="${sv_}"/><block wx:for="{{[1]}}" wx:key="${sv_}"><k/></block><o v="{{ {${n.replace(/[-.]/g, '_')}: 1} }}"/>`
    plan.push({ n, v, lower })
  }
  const res = compileMany([{ id: 0, files: [['dir/p', src]], scripts: [] }]).get(0)
  if (!res || res.panics?.length) { report.violation('compiler failed on the name workload', { panics: res && res.panics }); return }
  const bad = allDiags(res).filter((d) => d.level >= LEVEL.Warn)
  if (bad.length) { report.violation(`name workload produced diagnostic "${bad[0].kind}" near ${JSON.stringify(src.split('\n')[bad[0].loc[0]].slice(Math.max(0, bad[0].loc[1] - 40), bad[0].loc[1] + 20))}`, { diag: bad[0] }); return }
  let G
  try { G = evalGroups(res.groups) } catch (e) { report.violation('generated code does not evaluate: ' + e.message, {}); return }
  if (!Object.keys(G).includes('dir/p')) report.violation(`group key differs from the template path: ${JSON.stringify(Object.keys(G))}`, {})
  const { tr, error } = instantiate(ge, G, 'dir/p', {}, {})
  if (error) { report.violation('generated code threw on the name workload: ' + error.message, {}); return }
  const tplNames = Object.keys(G['dir/p']._)
  const eEvents = tr.events.filter((e) => e.op === 'E' && e.tag.startsWith('t-'))
  const sEvents = tr.events.filter((e) => e.op === 'S')
  const fEvents = tr.events.filter((e) => e.op === 'F')
  const oNodes = []
  const tNodes = []
  for (const [node, info] of tr.info) { if (info.tag === 'o') oNodes.push(node); if (info.tag.startsWith('t-')) tNodes.push(node) }
  plan.forEach((p, j) => {
    const check = (what, got, want) => { report.evals(); report.shape('name|' + what); if (got !== want) report.violation(`${what}: arrived as ${X.show(got)}, intended ${X.show(want)}`, { what, name: p.n, value: p.v }) }
    check('template name', tplNames.includes(p.v) ? p.v : tplNames.join('|'), p.v)
    const ev = eEvents[j]
    check('tag name', ev && ev.tag, 't-' + p.lower)
    check('element slot', ev && ev.slot, p.v)
    check('generic value', ev && ev.generics[p.lower], p.v)
    const ch = tr.chan.get(tNodes[j]) || { r: {}, d: {}, m: {}, v: {}, a: {}, wl: {} }
    check('attribute name', Object.keys(ch.r).join('|'), p.n)
    check('dataset name', Object.keys(ch.d).join('|'), p.n)
    check('mark name', Object.keys(ch.m).join('|'), p.n)
    check('event name', Object.keys(ch.v).join('|'), p.n)
    check('extra-attr value', ch.a[p.n], p.v)
    check('worklet value', Object.values(ch.wl).join('|'), p.v)
    check('slot name', sEvents[j] && sEvents[j].name, p.v)
    check('wx:key', fEvents[j] && fEvents[j].key, p.v)
    const o = tr.chan.get(oNodes[j])
    check('object key', o && Object.keys(o.r.v[0]).join('|'), p.n.replace(/[-.]/g, '_'))
  })
}

export async function run(ctx) {
  const { report } = ctx
  const items = stringsFor(ctx)
  judgeStrings(ctx, items)
  if (ctx.shard === 0) { judgeEntities(ctx); judgeRawAngles(ctx) }
  judgeNames(ctx)
  report.count('strings', items.length)
  report.sample({ element: '<x a="|c+succ|" b="{{ \'c+succ\' }}">|c+succ|</x>', first: items[0] && { codePoint: items[0].c, successor: SUCC[items[0].si] } }, 1)
}
