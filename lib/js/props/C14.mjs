// C14 — stringify is a faithful, stable inverse of parse.
// Events: p1 = print(parse(t)) (plain and mangled), diagnostics of parse(p1), p2 = print(parse(p1)); snapshots
// of gen(parse(t)) and gen(parse(p1)) on the real runtime over creation + an update history.
// Oracle: p2 == p1; no diagnostic above Note on p1; identical snapshots at every step.
import * as X from '../expr.mjs'
import * as M from '../tmodel.mjs'
import { genFileSet, makeData, printFileSet, DATA_NAMES } from '../gen.mjs'
import { compileMany, instantiate, allDiags, snap, LEVEL, withWarnings } from '../kit.mjs'
import { diffSnap, showSnap, evalGroups } from '../rt.mjs'
import { Rng } from '../prng.mjs'
import { genOp, applyOp, driveOp, showOp } from '../mut.mjs'

export const rule = 'distinct = structural shape of the abstract file set x printing variant (plain / mangled); non-trivial = the printed text differs from the source text'
export const assumptions = [
  'behavioural equality is observed on 2 data environments x (creation + 2 update steps) through the same snapshot as C04/C06',
  'templates come from the documented-syntax generator with full spelling variation (entities, quotes, comments, whitespace), so the printed form nearly always differs from the source',
]

const FIELDS = [...DATA_NAMES, 'list', 'arr', 'obj', 'ob', 'flag', 'n', 's']
const WANT1 = { smap: true, mangled: true, groups: true }

function behaviour(ge, G, main, dataSeed, ops, propComponents = false) {
  const mk = () => makeData(new Rng(dataSeed), { small: true })
  const live = instantiate(ge, G, main, mk(), { keepEvents: false, propComponents })
  if (live.error) return { error: live.error }
  const steps = [snap(ge, live.comp, live.tr, {})]
  for (const o of ops) {
    try { withWarnings(ge, live.tr, () => driveOp(live.comp, o)) } catch (e) { return { error: e, steps } }
    steps.push(snap(ge, live.comp, live.tr, {}))
  }
  return { steps }
}

function hasFor(fs_) {
  let found = false
  for (const f of Object.values(fs_.files)) {
    M.walkNodes(f.children, (n) => { if (n.t === 'for') found = true })
    for (const d of f.defs || []) M.walkNodes(d.children, (n) => { if (n.t === 'for') found = true })
  }
  return found
}
function hasEmptyStringText(fs_) {
  let found = false
  const chk = (n) => { if (n.t === 'text' && M.isSingle(n.v) && n.v.parts[0].e.t === 'str' && n.v.parts[0].e.v === '') found = true }
  for (const f of Object.values(fs_.files)) { M.walkNodes(f.children, chk); for (const d of f.defs || []) M.walkNodes(d.children, chk) }
  return found
}
function hasCommentBetweenTexts(fs_) {
  let found = false
  const chk = (nodes) => {
    for (let i = 0; i + 2 < nodes.length + 0; i++) {
      if (nodes[i].t !== 'text') continue
      let j = i + 1
      while (j < nodes.length && nodes[j].t === 'comment') j++
      if (j > i + 1 && j < nodes.length && nodes[j].t === 'text') found = true
    }
    for (const n of nodes) for (const l of M.childLists(n)) chk(l)
  }
  for (const f of Object.values(fs_.files)) { chk(f.children); for (const d of f.defs || []) chk(d.children) }
  return found
}
function mergeText(nodes) {
  const out = []
  for (const n of nodes) {
    if (n.k === 'text' && out.length && out[out.length - 1].k === 'text') out[out.length - 1] = { k: 'text', text: out[out.length - 1].text + n.text }
    else out.push(n.children ? { ...n, children: mergeText(n.children) } : n)
  }
  return out
}
const KNOWN_COMMENT = ['comment-between-texts-dropped', 'two text nodes separated only by a comment are printed adjacent and re-parse as one text node (same concatenated text)']
function hasLiteralEventBinding(fs_) {
  let found = false
  const chk = (n) => { for (const a of n.attrs || []) if (M.EVENT_FAMS.includes(a.fam) && a.value && M.isSingle(a.value) && a.value.parts[0].e.t === 'str') found = true }
  for (const f of Object.values(fs_.files)) { M.walkNodes(f.children, chk); for (const d of f.defs || []) M.walkNodes(d.children, chk) }
  return found
}
function maskIsDynamic(nodes) {
  return nodes.map((n) => {
    if (n.k === 'text') return n
    const ch = { ...(n.ch || {}) }
    if (ch.v) { ch.v = {}; for (const [k, v] of Object.entries(n.ch.v)) ch.v[k] = [...v.slice(0, 4), 'masked', ...v.slice(5)] }
    return { ...n, ch, children: n.children ? maskIsDynamic(n.children) : undefined }
  })
}
const KNOWN_LITEVENT = ['literal-event-binding-printed-static', 'an event binding whose value is a lone string literal is printed as static text, so the reprint registers it as a static listener (isDynamic=false)']
function dropEmptyText(nodes) {
  return nodes.filter((n) => !(n.k === 'text' && n.text === '')).map((n) => (n.children ? { ...n, children: dropEmptyText(n.children) } : n))
}
const KNOWN_MANGLED = ['mangled-for-scopes-undeclared', 'with set_mangling(true) a wx:for is printed without wx:for-item / wx:for-index although the expressions use the mangled names (pinned by the repository\'s own tests)']
const KNOWN_EMPTY = ['empty-string-binding-dropped', 'a text node `{{ \'\' }}` is printed as nothing, so the reprint lacks the empty text node (pinned by parse::expr::test::lit_str)']

export function judge(ctx, c, r1, r2plain, r2mangled) {
  const { ge, report } = ctx
  const viol = (s_, w) => { report.violation(s_, { caseSeed: c.caseSeed, files: c.sources, ...w }); c.failed = true }
  for (const r of [r1, r2plain, r2mangled]) {
    if (!r || r.inconclusive) { report.inconc(r ? r.inconclusive : 'no result'); return }
    if (r.crash || (r.panics && r.panics.length)) { viol(`compiler failed: ${r.panics?.[0]?.msg || 'process died'} (${r.panics?.[0]?.phase})`, { crash: r.crash, panics: r.panics }); return }
  }
  if (allDiags(r1).some((d) => d.level >= LEVEL.Warn)) { viol(`documented syntax produced diagnostic "${allDiags(r1).find((d) => d.level >= LEVEL.Warn).kind}"`, {}); return }
  for (const [variant, r2, k1, k2] of [['plain', r2plain, 'str_plain', 'str_plain'], ['mangled', r2mangled, 'str_mangled', 'str_mangled']]) {
    for (const [p] of c.sources) {
      report.evals()
      const p1 = r1.files[p][k1]
      const p2 = r2.files[p][k2]
      const bad = (r2.files[p].diags || []).filter((d) => d.level > LEVEL.Note)
      if (variant === 'mangled' && c.hasFor) {
        // recorded finding: the mangled print of a template with wx:for is not expected to re-parse faithfully;
        // printing must still be a fixpoint
        if (!bad.length && p1 !== p2) viol(`printing is not a fixpoint (${variant}, ${p})`, { variant, p1, p2, firstDiff: firstDiff(p1, p2) })
        continue
      }
      if (bad.length) { viol(`re-parsing the ${variant} print of ${p} produces "${bad[0].kind}"`, { variant, printed: p1, diag: bad[0] }); continue }
      if (p1 !== p2) { viol(`printing is not a fixpoint (${variant}, ${p})`, { variant, p1, p2, firstDiff: firstDiff(p1, p2) }); continue }
      if (variant === 'plain' && r1.files[p].str !== undefined && r1.files[p].str !== p1) viol(`stringify_tmpl and Stringifier disagree on ${p}`, { a: r1.files[p].str, b: p1 })
      if (p1 !== c.sources.find((x) => x[0] === p)[1]) c.nontrivial = true
    }
  }
  if (c.failed) return
  // behaviour
  let G0, G1, G2
  try { G0 = evalGroups(r1.groups); G1 = evalGroups(r2plain.groups); G2 = c.hasFor ? null : evalGroups(r2mangled.groups) } catch (e) { viol('generated code of a printed template does not evaluate: ' + e.message, {}); return }
  for (let di = 0; di < 2; di++) {
    const dataSeed = (c.dataSeed + di * 977) >>> 0
    const ops = c.ops[di]
    const b0 = behaviour(ge, G0, c.fs.main, dataSeed, ops, (c.caseSeed & 1) === 1)
    if (b0.error && !b0.steps) { report.count('original_throws'); continue }
    for (const [variant, G, r2] of [['plain', G1, r2plain], ['mangled', G2, r2mangled]]) {
      if (variant === 'mangled' && c.hasFor) { report.knownHit(...KNOWN_MANGLED); continue }
      const b = behaviour(ge, G, c.fs.main, dataSeed, ops, (c.caseSeed & 1) === 1)
      report.evals()
      if (b.error && !b.steps) { viol(`the ${variant} print throws where the original renders: ${String(b.error.message).slice(0, 160)}`, { variant, printed: Object.fromEntries(c.sources.map(([p]) => [p, r1.files[p]['str_' + variant]])) }); continue }
      const n = Math.min(b0.steps.length, b.steps.length)
      if (b0.steps.length !== b.steps.length) { viol(`the ${variant} print fails at a different update step`, { variant }); continue }
      for (let k = 0; k < n; k++) {
        let d = diffSnap(b.steps[k], b0.steps[k])
        if (d && c.hasEmptyStringText && !diffSnap(dropEmptyText(b.steps[k]), dropEmptyText(b0.steps[k]))) { report.knownHit(...KNOWN_EMPTY); d = null }
        if (d && c.hasLiteralEventBinding) {
          // the recorded findings may combine: normalise both sides by every applicable matcher
          const norm = (t) => { let x = maskIsDynamic(t); if (c.hasEmptyStringText) x = dropEmptyText(x); return x }
          if (!diffSnap(norm(b.steps[k]), norm(b0.steps[k]))) { report.knownHit(...KNOWN_LITEVENT); d = null }
        }
        if (d) {
          viol(`the ${variant} print ${k === 0 ? 'renders' : 'updates (step ' + k + ': ' + showOp(ops[k - 1]) + ')'} differently: ${d}`.slice(0, 500), { variant, step: k, printed: Object.fromEntries(c.sources.map(([p]) => [p, r1.files[p]['str_' + variant]])), original: showSnap(b0.steps[k]).slice(0, 2000), reprinted: showSnap(b.steps[k]).slice(0, 2000), diff: d })
          break
        }
      }
    }
  }
}
function firstDiff(a, b) {
  let i = 0
  while (i < a.length && i < b.length && a[i] === b[i]) i++
  return { at: i, a: a.slice(Math.max(0, i - 30), i + 40), b: b.slice(Math.max(0, i - 30), i + 40) }
}

export function makeCases(ctx, n, fixed = null) {
  const cases = []
  let attempts = 0
  while (cases.length < n && attempts++ < n * 4) {
    const caseSeed = fixed ? fixed[attempts - 1] : ctx.rng.u32()
    if (caseSeed === undefined) break
    const r = new Rng(caseSeed)
    const fs_ = genFileSet(r, { safeLists: true, allowSlot: true })
    const st = { rng: r, spacing: r.bool(0.5), redundant: r.bool(0.3) ? 0.15 : 0, entities: r.bool(0.5) ? 0.2 : 0, layout: r.bool(0.5), between: true, shuffleAttrs: r.bool(0.5), unquoted: true }
    let sources
    try { sources = printFileSet(fs_, st) } catch (e) { if (/adjacent text/.test(e.message)) continue; throw e }
    const dataSeed = r.u32()
    const ops = [0, 1].map((di) => {
      const D = makeData(new Rng((dataSeed + di * 977) >>> 0), { small: true })
      const out = []
      for (let i = 0; i < 2; i++) { const o = genOp(r, D, FIELDS); out.push(o); applyOp(D, o) }
      return out
    })
    cases.push({ id: cases.length, caseSeed, fs: fs_, sources, dataSeed, ops, hasFor: hasFor(fs_), hasEmptyStringText: hasEmptyStringText(fs_), hasCommentBetweenTexts: hasCommentBetweenTexts(fs_), hasLiteralEventBinding: hasLiteralEventBinding(fs_) })
  }
  return cases
}

function runBatch(ctx, batch) {
  const r1 = compileMany(batch.map((c) => ({ id: c.id, files: c.sources, scripts: Object.entries(c.fs.scripts) })), WANT1)
  const second = []
  for (const c of batch) {
    const res = r1.get(c.id)
    if (!res || !res.files || (res.panics && res.panics.length)) continue
    const ok = c.sources.every(([p]) => res.files[p] && typeof res.files[p].str_plain === 'string' && typeof res.files[p].str_mangled === 'string')
    if (!ok) continue
    second.push({ id: c.id + ':plain', files: c.sources.map(([p]) => [p, res.files[p].str_plain]), scripts: Object.entries(c.fs.scripts) })
    second.push({ id: c.id + ':mangled', files: c.sources.map(([p]) => [p, res.files[p].str_mangled]), scripts: Object.entries(c.fs.scripts) })
  }
  const r2 = compileMany(second, WANT1)
  for (const c of batch) {
    judge(ctx, c, r1.get(c.id), r2.get(c.id + ':plain'), r2.get(c.id + ':mangled'))
    if (c.nontrivial) ctx.report.shape(Object.values(c.fs.files).map((f) => M.shapeOfNodes(f.children)).join('||'))
    ctx.report.sample({ files: c.sources, printed: r1.get(c.id)?.files?.[c.fs.main]?.str_plain?.slice(0, 600) }, 3)
  }
}

function runFindingWitnesses(ctx) {
  const { ge, report } = ctx
  const w1 = '<a wx:for="{{list}}">{{item}}</a>'
  const a = compileMany([{ id: 0, files: [['p', w1]], scripts: [] }], WANT1).get(0)
  const m = a.files.p.str_mangled
  if (/_\$0/.test(m) && !/wx:for-item/.test(m)) report.knownHit(...KNOWN_MANGLED)
  else report.notes.push('STALE-FINDING mangled-for-scopes-undeclared: the witness now prints ' + m)
  const w4 = "<a catch:tap=\"{{ 'h' }}\"/>"
  const c4 = compileMany([{ id: 0, files: [['p', w4]], scripts: [] }], WANT1).get(0)
  if (c4.files.p.str_plain === '<a catch:tap="h"/>') report.knownHit(...KNOWN_LITEVENT)
  else report.notes.push('STALE-FINDING literal-event-binding-printed-static: the witness now prints ' + c4.files.p.str_plain)
  const w2 = "<a>{{ '' }}</a>"
  const b = compileMany([{ id: 0, files: [['p', w2]], scripts: [] }], WANT1).get(0)
  if (b.files.p.str_plain === '<a/>') report.knownHit(...KNOWN_EMPTY)
  else report.notes.push('STALE-FINDING empty-string-binding-dropped: the witness now prints ' + b.files.p.str_plain)
  // findings recorded by their witness only (the generator does not produce these inputs)
  const printOf = (src, key = 'str_plain') => compileMany([{ id: 0, files: [['p', src]], scripts: [] }], WANT1).get(0).files.p[key]
  const witnessOnly = [
    ['wxs-end-tag-lookalike-rewritten', '<wxs module="m">exports.s = "</wxs-view>"</wxs>{{m.s}}', 'str_plain', (t) => t.includes('< /wxs-view>'), 'inside an inline <wxs>, `</wxs` followed by name characters (e.g. the string "</wxs-view>") is printed as `< /wxs-view>`: the script text changes (pinned by parse::tag::test::script)'],
    ['template-data-parentheses-dropped', '<template name="t">{{a}}</template><template is="t" data="{{ (obj) }}"/>', 'str_plain', (t) => t.includes('data="{{obj}}"'), '`<template is="t" data="{{ (obj) }}"/>` is printed as `data="{{obj}}"`, which re-parses as the object shorthand `{obj}`'],
    ['mangled-name-captures-user-identifier', '<x-a><v slot:a="b">{{ _$0 }}|{{ b }}</v></x-a>', 'str_mangled', (t) => /\{\{_\$0\}\}\|\{\{_\$0\}\}/.test(t), 'with set_mangling(true) a data field that is itself named `_$0` is captured by the mangled scope name `_$0`'],
    ['attribute-name-emptied-by-normalisation', '<div data-="1"/>', 'str_plain', (t) => t.includes('data:='), '`<div data-="1">` (a name that is empty after the prefix is stripped) is accepted silently and printed as `data:="1"`, which re-parses with a warning'],
  ]
  for (const [slug, src, key, pred, text] of witnessOnly) {
    let t
    try { t = printOf(src, key) } catch (e) { t = undefined }
    if (typeof t === 'string' && pred(t)) report.knownHit(slug, text)
    else report.notes.push(`STALE-FINDING ${slug}: the witness now prints ${t}`)
  }
}

export async function run(ctx) {
  X.sameOptions.signedZero = false // an updated instance is compared with a fresh one: the runtime's change detection is `!==`
  if (ctx.shard === 0) runFindingWitnesses(ctx)
  const N = ctx.tier === 'thorough' ? 8000 : 700
  const cases = makeCases(ctx, N)
  for (let i = 0; i < cases.length; i += 200) runBatch(ctx, cases.slice(i, i + 200))
  ctx.report.count('templates', cases.length)
}

export async function replay(ctx) {
  X.sameOptions.signedZero = false
  runBatch(ctx, makeCases(ctx, 1, [ctx.replay.witness.caseSeed]))
}
