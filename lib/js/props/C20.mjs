// C20 — compilation is a deterministic function of the set of inputs.
// Events: the bytes of every emit API (and of both CSS outputs + source maps) from P fresh processes (each has
// its own hash seeds) x insertion-order permutations x import_group splits.
// Oracle: exactly one distinct byte string per (group, API).
import * as M from '../tmodel.mjs'
import { genFileSet, printFileSet } from '../gen.mjs'
import { gevBatch } from '../gev.mjs'
import { Rng, fnv } from '../prng.mjs'

export const needsRuntime = false
export const rule = 'distinct = (file set, insertion order, split, process); non-trivial = the group has >= 2 files (or >= 2 scripts), so that emission order can vary'
export const assumptions = ['each gev invocation is a fresh process (fresh std RandomState), so HashMap iteration orders differ between observations']

const APIS = ['groups', 'wx', 'runtime', 'globals', 'all_scripts']

function permutations(arr) {
  if (arr.length <= 1) return [arr]
  const out = []
  arr.forEach((x, i) => { for (const p of permutations([...arr.slice(0, i), ...arr.slice(i + 1)])) out.push([x, ...p]) })
  return out
}

/** kind: 'std' (every file may carry an inline module, plus k external scripts), 'inline-one' (no external
 *  scripts; exactly one file has an inline <wxs>: whether the script runtime is emitted must not depend on
 *  where that file sits in the insertion order), 'no-scripts'. */
const LATE_MODULE = '<wxs module="zq9">exports.z = 1</wxs>'
function genGroup(rng, k, kind = 'std') {
  const files = []
  const scripts = []
  const inlineAt = rng.int(k)
  const PATHS = ['a', 'b/c', 'd', 'b/e', 'f/g/h', 'z']
  for (let i = 0; i < k; i++) {
    const withModule = kind === 'std' ? rng.bool(0.5) : kind === 'inline-one' ? i === inlineAt : false
    const fs_ = genFileSet(rng, { withModule, withInclude: false, maxDepth: 2 })
    const path = PATHS[i]
    let src
    try { src = M.printFile(fs_.files[fs_.main], { rng }) } catch (e) { src = (withModule ? '<wxs module="m">exports.x = 1</wxs>' : '') + '<v a="{{a}}" b="{{b}}" c="{{c}}" d="{{d}}" e="{{e}}">{{f}}{{g}}</v>' }
    // many data fields so that the binding-map initialiser `A={...}` has many keys
    src += `<q a="{{f1}}" b="{{f2}}" c="{{f3}}" d="{{f4}}" e="{{f5}}" f="{{f6}}" g="{{f7}}" h="{{f8}}">{{f9}}{{f10}}{{f11}}{{f12}}</q>`
    // several distinct names wherever the compiler collects names into a set or map before emitting them
    src += `<c generic:g1="x" generic:g2="y" generic:g3="z"><d slot:item slot:index slot:extra slot:aa slot:bb slot:cc="k">{{item}}{{index}}{{extra}}{{aa}}{{bb}}{{k}}</d><e slot:zz slot:aa>{{zz}}{{aa}}</e></c>`
    src += `<template name="n1"><i1/></template><template name="n2"><i2/></template><template name="n3"><i3/></template><template name="n0"><i0/></template><template is="n2"/>`
    // entity spellings that are in no table, next to ones that are (what an unknown name decodes to - itself - must not
    // depend on the iteration order of a table)
    src += `<ent title="&EACUTE;&ALPHA;&nbsp;&NBSP;&Copy;&oMEGA;&lt;&LT;">&DELTA;&AACUTE;&amp;&THETA;&Ouml;&OUML;&Prime;&PRIME;&dagger;&DAGGER;</ent>`
    if (kind === 'std') src += `<wxs module="w${i}" src="/s/${i}"/><wxs module="v${i}" src="/s/${(i + 1) % k}"/>{{w${i}.v}}{{v${i}.v}}`
    // (the last file ends with an inline module no expression refers to: it can also be supplied through
    //  set_inline_script_content after the file was added without it)
    if (i === k - 1 && kind !== 'no-scripts') src += LATE_MODULE
    if (i > 0) src = `<import src="/${PATHS[i - 1]}"/>` + src
    if (i > 1) src = `<import src="/${PATHS[i - 2]}"/>` + src
    files.push([path, src])
    if (kind === 'std') scripts.push(['s/' + i, `exports.v = ${i}`])
  }
  // two spellings of one location are two files of the group (keys are the paths as given): the group is still one set
  if (k >= 2 && k < 6 && rng.bool(0.5)) {
    files.push(['./' + PATHS[0], `<alias a="{{q1}}" b="{{q2}}">{{q3}}</alias><template name="n1"><j1/></template>`])
    if (kind === 'std') scripts.push(['./s/0', 'exports.v = "alias"'])
  }
  return { files, scripts, kind }
}

export async function run(ctx) {
  const { report, tier, rng } = ctx
  const K = tier === 'thorough' ? 5 : 4
  const P = tier === 'thorough' ? 8 : 6
  const NG = tier === 'thorough' ? 24 : 6
  const groups = []
  for (let g = 0; g < NG; g++) groups.push(genGroup(new Rng(rng.u32()), g % 3 === 0 ? 2 : g % 3 === 1 ? 3 : K, ['std', 'inline-one', 'std', 'no-scripts', 'inline-one', 'std'][g % 6]))
  const want = { gen: true, groups: true, wx: true, runtime: true, globals: true, all_scripts: true }
  // observations[g][api] = Map(hash -> {n, sample, order})
  const obs = groups.map(() => ({}))
  const see = (g, api, text, how) => {
    if (typeof text !== 'string') return
    const m = (obs[g][api] = obs[g][api] || new Map())
    const h = fnv(text) + ':' + text.length
    if (!m.has(h)) m.set(h, { n: 0, text, how })
    m.get(h).n++
    report.evals()
  }
  for (let p = 0; p < P; p++) {
    const cases = []
    groups.forEach((grp, g) => {
      const perms = permutations(grp.files.map((_, i) => i))
      // each process sees a different slice of the orders; all orders are covered across processes and shards
      const mine = perms.filter((_, i) => (i + p + ctx.shard * 7) % Math.max(1, Math.floor(perms.length / 4)) === 0).slice(0, 30)
      mine.forEach((order, oi) => {
        const files = order.map((i) => grp.files[i])
        const scripts = (oi + p) % 2 ? grp.scripts.slice().reverse() : grp.scripts
        // import_group splits: any cut, including "all templates in the imported group" (0) and "the imported
        // group holds scripts only" (files.length)
        const split = (oi + p) % 3 === 0 ? (oi + p + ctx.shard) % (files.length + 1) : undefined
        const script_split = split === undefined ? undefined : split === files.length ? 0 : (oi % (scripts.length + 1))
        // histories that end in the same set of files: an older version of a file / script was added first (with or
        // without an inline module), or the trailing inline module arrives through set_inline_script_content
        let history
        let filesH = files
        let scriptsH = scripts
        let set_inline
        const hk = (oi + p + ctx.shard) % 5
        if (hk === 1) {
          const j = (oi + p) % files.length
          const older = /<wxs module="[^"]*">/.test(files[j][1]) ? '<v a="{{a}}"/>' : '<wxs module="old">exports.o = 1</wxs><v a="{{old.o}}"/>'
          const at = (oi * 7 + p) % (j + 1)
          filesH = [...files.slice(0, at), [files[j][0], older], ...files.slice(at)]
          history = `an older version of ${files[j][0]} was added first (position ${at})`
        } else if (hk === 2 && scripts.length) {
          scriptsH = [[scripts[0][0], 'exports.v = "older"'], ...scripts]
          history = `an older version of script ${scripts[0][0]} was added first`
        } else if (hk === 3 && split === undefined) {
          const j = files.findIndex((f) => f[1].endsWith(LATE_MODULE))
          if (j >= 0) {
            // (the module exists already, with other content: adding a *new* module this way shifts the scope indices the
            //  expressions were resolved to at parse time - a hot-update API outside this property, see DESIGN.md)
            filesH = files.map((f, i) => (i === j ? [f[0], f[1].slice(0, -LATE_MODULE.length) + LATE_MODULE.replace('= 1', '= "older"')] : f))
            set_inline = [[files[j][0], 'zq9', 'exports.z = 1']]
            history = `the content of the trailing inline module of ${files[j][0]} was replaced through set_inline_script_content`
          }
        }
        // (the imported group may have been created in the other mode, dev / not dev: the destination's mode governs)
        const sub_other_mode = split !== undefined && (oi + p) % 2 === 0
        cases.push({ id: cases.length, g, files: filesH, scripts: scriptsH, split: history && hk === 1 ? undefined : split, script_split: history && hk === 1 ? undefined : script_split, want, ...(sub_other_mode ? { sub_other_mode } : {}), ...(set_inline ? { set_inline } : {}), how: { process: p, order, split, script_split, history } })
      })
    })
    const res = gevBatch('tmpl', cases.map(({ g, how, ...c }) => c))
    for (const c of cases) {
      const r = res.get(c.id)
      if (!r || r.inconclusive) { report.inconc(r ? r.inconclusive : 'no result'); continue }
      if (r.crash || (r.panics && r.panics.length)) { report.violation('compiler failed', { panics: r.panics, crash: r.crash }); continue }
      for (const api of APIS) see(c.g, api, r[api], c.how)
      for (const [path, f] of Object.entries(r.files || {})) see(c.g, 'gen:' + path, f.gen, c.how)
      report.shape(c.g + '|' + c.how.order.join(',') + '|' + (c.how.split ?? '-') + '|p' + c.how.process)
      report.cell('observations', c.how.history ? 'history' : c.how.split !== undefined ? 'import_group' : 'direct', 'n')
    }
  }
  groups.forEach((grp, g) => {
    for (const [api, m] of Object.entries(obs[g])) {
      if (m.size > 1) {
        const variants = [...m.values()]
        let i = 0
        while (i < variants[0].text.length && variants[0].text[i] === variants[1].text[i]) i++
        report.violation(`${api} of one file set has ${m.size} distinct byte strings across processes / insertion orders`, { api, files: grp.files.map(([p, s]) => [p, s.slice(0, 300)]), variantA: { how: variants[0].how, around: variants[0].text.slice(Math.max(0, i - 60), i + 80) }, variantB: { how: variants[1].how, around: variants[1].text.slice(Math.max(0, i - 60), i + 80) } })
      }
    }
  })
  // stylesheets
  const sheets = ['.a .b{width:75rpx;color:red}@media (width:1rpx){.c{margin:0 1px}}:host{color:blue}', '@import "x.css" screen;.a{b:calc(1rpx + 2px)}', '.x,.y>.z{u:U+0-7F;k:url(a.png)}@keyframes k{from{a:1}50%{a:2}}']
  // (several option sets that share rpx values, class names and import paths: what one transformation leaves behind in
  //  the process must not reach the next one; every process runs the cases in another order)
  const opts = [{ class_prefix: 'p', convert_host: true, host_is: 'h', import_sign: 'IMP', class_prefix_sign: 'S' }, {}, { rpx_ratio: 375 }, { rpx_ratio: 10, class_prefix: 'q', import_sign: 'I2' }, { class_prefix: 'p', rpx_ratio: 1 }]
  const seen = new Map()
  for (let p = 0; p < P; p++) {
    const cases = []
    sheets.forEach((css, i) => opts.forEach((o, j) => cases.push({ id: i * 10 + j, css, path: 'p', opts: o, tokens: false })))
    // (rotated and, in every second process, reversed)
    for (let k = 0; k < (p * 7) % cases.length; k++) cases.push(cases.shift())
    if (p % 2) cases.reverse()
    const res = gevBatch('css', cases)
    for (const c of cases) {
      const r = res.get(c.id)
      if (!r || r.panics?.length) { report.violation('stylesheet compiler failed', { css: c.css, panics: r && r.panics }); continue }
      const key = c.id
      const val = JSON.stringify([r.out, r.low, r.map_json, r.low_map_json])
      report.evals()
      if (!seen.has(key)) seen.set(key, val)
      else if (seen.get(key) !== val) report.violation('the same stylesheet and options gave different CSS / source map bytes in two processes', { css: c.css, opts: c.opts })
    }
  }
  report.sample({ files: groups[0].files.map(([p, s]) => [p, s.slice(0, 200)]), scripts: groups[0].scripts }, 1)
  report.count('groups', groups.length)
  report.count('processes', P)
}
