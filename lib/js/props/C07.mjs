// C07 — binding-map fast path: sound where offered, absent where it cannot be complete.
// Events: keys/lengths of the `B` object returned by the generated template function; snapshots after
// setData({f: v}) took the binding-map path (no tree update observed in the boundary log).
// Oracle: (1) snapshot == snapshot of a fresh creation with the new data; (2) every advertised field has no
// occurrence in a position the map cannot reach (computed from the abstract template).
import * as X from '../expr.mjs'
import * as M from '../tmodel.mjs'
import { genFileSet, makeData, printFileSet, DATA_NAMES } from '../gen.mjs'
import { compileMany, instantiate, allDiags, snap, LEVEL, withWarnings } from '../kit.mjs'
import { diffSnap, showSnap, evalGroups, DYN_SLOT_CHILD_SRC } from '../rt.mjs'
import { Rng } from '../prng.mjs'
import { valueOf } from '../mut.mjs'
import { maskPaths } from './C06.mjs'

export const rule = 'distinct = shape of the abstract template x set of advertised fields; non-trivial = B is non-empty or at least one used field was withheld by the absence rule'
export const assumptions = [
  'the set of unreachable positions is computed from the abstract template following the property text (if/for/template-is/include/slot subtrees, <template name> bodies, conditions, list expressions, template target/data, slot names, slot attributes of virtual nodes, slot values)',
  'whether the binding-map path ran is read from the boundary log (no procgen call in update mode)',
]

/** fields referenced as data (not shadowed) per position class */
export function analyse(file, moduleNames) {
  const mapped = new Set()
  const disabled = new Set()
  let hasInclude = false
  const refs = (v, scopes, into) => {
    for (const e of M.valueExprs(v)) for (const name of X.identifiers(e)) if (!scopes.includes(name)) into.add(name)
  }
  const visit = (n, scopes, dyn) => {
    const target = dyn ? disabled : mapped
    switch (n.t) {
      case 'text': refs(n.v, scopes, target); break
      case 'comment': case 'hoist': break
      case 'el': {
        const sc = [...scopes, ...(n.slotVals || []).map((s) => (s.as === undefined ? M.dashToCamel(s.name) : s.as))]
        for (const a of n.attrs) if (a.value && !['worklet', 'generic', 'extra-attr'].includes(a.fam)) refs(a.value, sc, target)
        for (const c of n.children) visit(c, sc, dyn)
        break
      }
      case 'block': {
        if (n.slotAttr) refs(n.slotAttr, scopes, disabled)
        for (const c of n.children) visit(c, scopes, dyn)
        break
      }
      case 'if':
        for (const b of n.branches) { refs(b.cond, scopes, disabled); visit(b.node, scopes, true) }
        if (n.els) visit(n.els, scopes, true)
        break
      case 'for': {
        refs(n.list, scopes, disabled)
        const sc = [...scopes, n.item === undefined ? 'item' : n.item, n.index === undefined ? 'index' : n.index]
        if (n.cond) refs(n.cond, sc, disabled)
        visit(n.node, sc, true)
        break
      }
      case 'tref': refs(n.is, scopes, disabled); if (n.data) refs(M.ev(n.data), scopes, disabled); break
      case 'include': hasInclude = true; break
      case 'slot':
        if (n.name) refs(n.name, scopes, disabled)
        for (const a of n.attrs || []) if (a.value) refs(a.value, scopes, disabled)
        break
    }
  }
  for (const n of file.children) visit(n, moduleNames, false)
  return { mapped, disabled, hasInclude }
}

export function judge(ctx, c, res) {
  const { ge, report } = ctx
  const viol = (s_, w) => report.violation(s_, { caseSeed: c.caseSeed, files: c.sources, ...w })
  if (!res || res.inconclusive) { report.inconc(res ? res.inconclusive : 'no result'); return }
  if (res.crash || (res.panics && res.panics.length)) { viol('compiler failed', { crash: res.crash, panics: res.panics }); return }
  if (allDiags(res).some((d) => d.level >= LEVEL.Error)) { report.count('rejected_by_sut'); return }
  let G
  try { G = evalGroups(res.groups) } catch (e) { viol('generated code does not evaluate: ' + e.message, {}); return }
  const mk = () => makeData(new Rng(c.dataSeed), { small: true })
  const pc = (c.caseSeed & 1) === 1 // `<x-a>` is a real child component in every second case
  const live = instantiate(ge, G, c.fs.main, mk(), { propComponents: pc, dynSlotChild: ctx.dynSlotChild })
  if (live.error) { report.count('creation_throws'); return }
  const B = live.tr.B || {}
  const offered = Object.keys(B)
  const file = c.fs.files[c.fs.main]
  const an = analyse(file, (file.wxs || []).map((w) => w.module))
  report.evals()
  // (2) absence
  for (const f of offered) {
    if (an.hasInclude) viol(`field "${f}" is advertised although the template has an <include>`, { offered })
    else if (an.disabled.has(f)) viol(`field "${f}" is advertised by the binding map although it is used in a position the map cannot reach`, { offered, disabled: [...an.disabled], mapped: [...an.mapped] })
    else if (!an.mapped.has(f)) viol(`field "${f}" is advertised but not used in any mapped position`, { offered, mapped: [...an.mapped] })
    // (the runtime switches the map off for an instance that hosts a dynamic-slots component: the table is then never used,
    //  and entries of content that was rendered zero times stay empty)
    const mapOff = live.comp._$tmplInst && live.comp._$tmplInst.procGenWrapper && live.comp._$tmplInst.procGenWrapper.bindingMapDisabled === true
    if (mapOff) report.count('binding_map_switched_off_by_runtime')
    else for (let i = 0; i < B[f].length; i++) if (typeof B[f][i] !== 'function') viol(`B["${f}"] has a hole at ${i}`, { offered })
  }
  const eligible = [...an.mapped].filter((f) => !an.disabled.has(f) && !an.hasInclude)
  report.count('fields_offered', offered.length)
  report.count('fields_eligible', eligible.length)
  report.count('fields_withheld', [...an.mapped].filter((f) => an.disabled.has(f) || an.hasInclude).length)
  for (const f of eligible) if (!offered.includes(f)) report.count('eligible_not_offered')
  c.nontrivial = offered.length > 0 || [...an.mapped].some((f) => an.disabled.has(f))
  c.offered = offered
  // (1) soundness of each offered field, through the real setData in default update mode
  const current = mk()
  for (const f of offered) {
    // helper fields must keep their type (a non-callable `Ctor` makes `instanceof` throw in any JavaScript)
    if (['Ctor', 'fn', 'fn2'].includes(f)) { report.count('helper_fields_not_mutated'); continue }
    for (let k = 0; k < 2; k++) {
      const vseed = (c.dataSeed ^ (k * 7919 + f.charCodeAt(0) * 31)) >>> 0
      const mark = live.tr.mark()
      try {
        withWarnings(ge, live.tr, () => live.comp.setData({ [f]: valueOf(vseed) }))
      } catch (e) {
        viol(`binding-map update of "${f}" threw: ${String(e.message || e).slice(0, 200)}`, { field: f, error: String(e.stack || e).slice(0, 600) })
        return
      }
      current[f] = valueOf(vseed)
      const viaTree = live.tr.since(mark).some((ev) => ev.op === 'procgen')
      report.cell('update_path', viaTree ? 'tree' : 'binding-map', 'n')
      const base = mk()
      for (const [kk, vv] of Object.entries(current)) if (DATA_NAMES.includes(kk) || offered.includes(kk)) base[kk] = vv
      const fresh = instantiate(ge, G, c.fs.main, base, { keepEvents: false, propComponents: pc, dynSlotChild: ctx.dynSlotChild })
      report.evals()
      if (fresh.error) { report.count('fresh_creation_throws'); return }
      const a = snap(ge, live.comp, live.tr, {})
      const b = snap(ge, fresh.comp, fresh.tr, {})
      // when the runtime fell back to the tree update, stale l-value paths are C06's business (and a recorded
      // finding there); what the binding-map updaters themselves leave behind is compared in full
      const d = viaTree ? diffSnap(maskPaths(a), maskPaths(b)) : diffSnap(a, b)
      if (d) {
        viol(`after the binding-map update of "${f}" the instance differs from a fresh creation: ${d}`.slice(0, 500), { field: f, viaTree, updated: showSnap(a).slice(0, 2500), fresh: showSnap(b).slice(0, 2500), diff: d })
        return
      }
    }
  }
}

export function makeCases(ctx, n, fixed = null) {
  const { rng } = ctx
  const cases = []
  let attempts = 0
  while (cases.length < n && attempts++ < n * 4) {
    const caseSeed = fixed ? fixed[attempts - 1] : rng.u32()
    if (caseSeed === undefined) break
    const r = new Rng(caseSeed)
    // biased towards flat templates (many mapped positions) with a few dynamic subtrees
    const genOpts = { allowSlot: true, safeLists: true, maxDepth: r.pick([1, 1, 2, 3]), maxTop: 6, withInclude: r.bool(0.08), nDefs: r.int(2) }
    const fs_ = genFileSet(r, genOpts)
    // event / change bindings whose handler is a script-module member selected by a data field: the binding-map
    // updater must hand over the same l-value path as the creation code
    const main = fs_.files[fs_.main]
    if ((main.wxs || []).some((w) => w.module === 'm') && r.bool(0.6)) {
      const k = () => X.id(r.pick(DATA_NAMES))
      const forms = [() => X.idx(X.id('m'), k()), () => X.idx(X.mem(X.id('m'), 'x'), k()), () => X.cond(k(), X.mem(X.id('m'), 'f'), X.mem(X.id('m'), 'g')), () => X.mem(X.idx(X.id('m'), k()), 'y')]
      main.children.push({ t: 'el', tag: 'p', attrs: [{ fam: r.pick(['bind', 'catch', 'mut-bind', 'capture-bind']), name: 'tap', value: M.ev(r.pick(forms)()) }, { fam: 'change', name: 'v', value: M.ev(r.pick(forms)()) }], children: [] })
    }
    // content of a dynamic-slots child that renders its slot once per list item: every binding in it exists several
    // times, so none of its fields may be served by the binding map
    if (r.bool(0.25)) main.children.push({ t: 'el', tag: 'd-s', attrs: [{ fam: 'plain', name: 'list', value: M.ev(X.id('list')) }], children: [{ t: 'el', tag: 'q', attrs: [{ fam: 'plain', name: 'w', value: M.ev(X.id(r.pick(DATA_NAMES))) }], children: [{ t: 'text', v: M.mv('', X.id(r.pick(DATA_NAMES)), ':', X.id(r.pick(DATA_NAMES))) }] }] })
    let sources
    try { sources = printFileSet(fs_, { rng: r, between: true }) } catch (e) { if (/adjacent text/.test(e.message)) continue; throw e }
    cases.push({ id: cases.length, caseSeed, fs: fs_, sources, dataSeed: r.u32() })
  }
  return cases
}

/** Fields named like members of Object.prototype: withheld fields must fall back to the tree update (the runtime
 *  looks the field up in the table `B`), mapped ones must be served like any other. */
function protoNamedProbes(ctx) {
  const { ge, report } = ctx
  const forms = [
    [(n) => `<a wx:if="{{${n}}}">x</a><b/>`, '', 'x'],
    [(n) => `<block wx:for="{{${n}}}"><i>{{item}}</i></block>`, [1], [1, 2]],
    [(n) => `<a v="{{${n}}}"/>`, 'p', 'q'],
    [(n) => `<template is="{{${n}}}"/><template name="t"><c/></template>`, '', 't'],
  ]
  const cases = []
  for (const n of ['valueOf', 'toString', 'constructor', 'hasOwnProperty', 'isPrototypeOf']) for (const [mk, v0, v1] of forms) cases.push({ id: cases.length, n, src: mk(n), v0, v1 })
  const results = compileMany(cases.map((c) => ({ id: c.id, files: [['p', c.src]], scripts: [] })))
  for (const c of cases) {
    const res = results.get(c.id)
    if (!res || res.inconclusive) { report.inconc(res ? res.inconclusive : 'no result'); continue }
    const G = evalGroups(res.groups)
    const live = instantiate(ge, G, 'p', { [c.n]: c.v0 }, {})
    if (live.error) { report.violation(`creation of ${c.src} threw: ${live.error}`, { src: c.src }); continue }
    report.evals()
    try {
      withWarnings(ge, live.tr, () => live.comp.setData({ [c.n]: c.v1 }))
    } catch (e) {
      report.violation(`setData of the field "${c.n}" threw: ${String(e.message || e).slice(0, 200)}`, { src: c.src, field: c.n })
      continue
    }
    const fresh = instantiate(ge, G, 'p', { [c.n]: c.v1 }, { keepEvents: false })
    const d = diffSnap(maskPaths(snap(ge, live.comp, live.tr, {})), maskPaths(snap(ge, fresh.comp, fresh.tr, {})))
    if (d) report.violation(`after setData of the field "${c.n}" (${Object.keys(live.tr.B || {}).includes(c.n) ? 'advertised' : 'not advertised'}) the instance differs from a fresh creation: ${d}`.slice(0, 400), { src: c.src, field: c.n })
    report.count('prototype_named_field_probes')
  }
}

function compileDynSlotChild(ctx) {
  ctx.dynSlotChild = evalGroups(compileMany([{ id: 'child', files: [['child', DYN_SLOT_CHILD_SRC]], scripts: [] }]).get('child').groups)
}

export async function run(ctx) {
  compileDynSlotChild(ctx)
  X.sameOptions.signedZero = false // an updated instance is compared with a fresh one: the runtime's change detection is `!==`
  const { report, tier } = ctx
  const N = tier === 'thorough' ? 12000 : 1200
  if (ctx.shard === 0) protoNamedProbes(ctx)
  const cases = makeCases(ctx, N)
  for (let i = 0; i < cases.length; i += 300) {
    const batch = cases.slice(i, i + 300)
    const results = compileMany(batch.map((c) => ({ id: c.id, files: c.sources, scripts: Object.entries(c.fs.scripts) })))
    for (const c of batch) {
      judge(ctx, c, results.get(c.id))
      if (c.nontrivial) report.shape(M.shapeOfNodes(c.fs.files[c.fs.main].children) + '|' + (c.offered || []).length)
      report.sample({ files: c.sources, advertised_fields: c.offered }, 3)
    }
  }
  report.count('templates', cases.length)
  report.count('require:fields_offered:20', 0)
}

export async function replay(ctx) {
  compileDynSlotChild(ctx)
  X.sameOptions.signedZero = false
  const w = ctx.replay.witness
  if (w.src && !w.caseSeed) { protoNamedProbes(ctx); return }
  for (const c of makeCases(ctx, 1, [w.caseSeed])) judge(ctx, c, compileMany([{ id: c.id, files: c.sources, scripts: Object.entries(c.fs.scripts) }]).get(c.id))
}
