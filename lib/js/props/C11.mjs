// C11 — emitted l-value paths address exactly the value the expression reads.
// Events: R.r(N,name,v,modelPath,generalPath), last argument of R.v / R.p / R.l, 4th argument of F and the
// itemLvaluePath the runtime derives for items. Oracle: every leaf of the data and of the script modules is
// a unique sentinel (objects have unique identity), so "resolve(path) is identical to the delivered value"
// is the get-put law; non-assignable expressions must carry no path; conditionals carry the taken branch.
import * as X from '../expr.mjs'
import * as M from '../tmodel.mjs'
import { Env, Renderer, refResolve } from '../ref.mjs'
import { compileMany, instantiate, allDiags, LEVEL, withWarnings } from '../kit.mjs'
import { Rng } from '../prng.mjs'

export const rule = 'distinct = shape of the bound expression x binding kind x nesting of the enclosing wx:for lists; non-trivial = a path was emitted, or a path was correctly withheld from a non-assignable expression'
export const assumptions = [
  'all leaves are unique sentinels and containers have unique identity, so identity of resolve(path) with the delivered value means the path names the location that was read',
  'assignability is decided on the abstract expression: access chains rooted at a data field, at a script module, or at the item of a list that itself has a path',
]

function mkData() {
  let n = 0
  const leaf = (p) => 'V' + (n++) + ':' + p
  const obj = (p, depth) => {
    if (depth === 0) return leaf(p)
    const o = { x: obj(p + '.x', depth - 1), y: obj(p + '.y', depth - 1), k0: leaf(p + '.k0') }
    return o
  }
  const mkItem = (p) => ({ v: leaf(p + '.v'), x: { y: leaf(p + '.x.y') }, sub: [{ v: leaf(p + '.sub[0].v') }, { v: leaf(p + '.sub[1].v') }] })
  return {
    a: obj('a', 2), b: obj('b', 1), c: leaf('c'), t: true, f: false,
    kx: 'x', ky: 'y', i0: 0, i1: 1, keys: { k: 'x', l: ['y', 'x'] },
    list: [mkItem('list[0]'), mkItem('list[1]')],
    map: { p: mkItem('map.p'), q: mkItem('map.q') },
    fn: function dataFn() { return ['r0', 'r1'] },
    prims: [leaf('prims[0]'), leaf('prims[1]')],
    // selected by `sel` / `tk`, which the update phase switches
    lists: { a: [mkItem('lists.a[0]'), mkItem('lists.a[1]')], b: [mkItem('lists.b[0]'), mkItem('lists.b[1]')] },
    sel: 'a', tk: 'a',
  }
}

// (the single-field steps are served by the binding map where the template allows it: its updaters must hand over the same paths)
const STEPS = [{ sel: 'b', tk: 'c', t: false, f: true }, { t: true }, { sel: 'a', tk: 'b', kx: 'y', ky: 'x' }, { f: false }, { kx: 'x' }, { tk: 'a', t: true, f: false, i0: 1, i1: 0 }, { i0: 0 }, { 'keys.l': ['x', 'y'], sel: 'b', t: false, f: true }, { t: true }, { f: false }, { t: false }]
const lastPhase = 'after update ' + (STEPS.length - 1)

const MODULE_CODE = (tag) => `function ${tag}_f(){return "${tag}.f"}; function ${tag}_g(){return "${tag}.g"}; module.exports = { f: ${tag}_f, tab: { a: ${tag}_f, b: ${tag}_f, c: ${tag}_g }, o: { g: ${tag}_g, list: [{ h: function ${tag}_h0(){} }, { h: function ${tag}_h1(){} }] }, s: "${tag}.s" }`

// ---- expression generators: an access chain and how assignable it is
function genChain(rng, root, maxLen) {
  let e = X.id(root)
  const len = rng.int(maxLen + 1)
  for (let i = 0; i < len; i++) {
    const r = rng.int(10)
    if (r < 5) e = X.mem(e, rng.pick(['x', 'y', 'k0']))
    else if (r < 7) e = X.idx(e, X.str(rng.pick(['x', 'y'])))
    else if (r < 9) e = X.idx(e, X.id(rng.pick(['kx', 'ky'])))
    else e = X.idx(e, X.idx(X.mem(X.id('keys'), 'l'), X.id(rng.pick(['i0', 'i1']))))
  }
  return e
}
function genNonPath(rng, leaf) {
  return rng.pick([
    () => X.bin('+', leaf, X.num('1')), () => X.str('lit'), () => X.num('5'), () => X.call(X.id('fn'), [leaf]), () => X.idx(X.arr([{ k: 'v', e: leaf }]), X.num('0')),
    () => X.mem(X.call(X.id('fn'), []), 'x'), () => X.un('!', leaf), () => X.mem(X.obj([{ k: 'kv', name: 'x', e: leaf }]), 'x'), () => X.bin('||', leaf, X.str('d')),
  ])()
}

/** root kind of an access chain under env: 'data' | 'module' | 'item' | null, following conditionals by the taken branch */
export function classify(e, env) {
  switch (e.t) {
    case 'id': {
      const p = env.provider(e.name)
      if (p.kind === 'data') return { root: 'data', path: [e.name] }
      const sc = p.scope
      if (sc.kind === 'module') return { root: 'module', scope: sc, path: [] }
      if (sc.kind === 'item') return sc.lpath ? { root: sc.lpath.root, scope: sc.lpath.scope, path: [...sc.lpath.path, sc.index] } : null
      return null
    }
    case 'mem': { const o = classify(e.o, env); return o && { ...o, path: [...o.path, e.name] } }
    case 'idx': { const o = classify(e.o, env); return o && { ...o, path: [...o.path, X.evalExpr(e.i, env)] } }
    case 'cond': return classify(X.evalExpr(e.c, env) ? e.a : e.b, env)
    default: return null
  }
}

function getPath(rootValue, path) {
  let cur = rootValue
  for (const k of path) { if (cur === null || cur === undefined) return undefined; cur = cur[k] }
  return cur
}

function genBound(rng, roots, modRoots) {
  // returns {e, kind}: the expression bound to a probe
  const r = rng.int(20)
  const root = rng.pick(roots)
  if (r < 8) return genChain(rng, root, 3)
  if (r < 10 && modRoots.length) return genChain(rng, rng.pick(modRoots), 0).t && X.mem(X.id(rng.pick(modRoots)), rng.pick(['f', 's']))
  if (r < 11 && modRoots.length) return rng.bool(0.5) ? X.mem(X.mem(X.id(rng.pick(modRoots)), 'o'), 'g') : X.idx(X.mem(X.id(rng.pick(modRoots)), 'tab'), X.id('tk'))
  if (r < 13) return X.cond(X.id(rng.pick(['t', 'f'])), genChain(rng, root, 2), genChain(rng, rng.pick(roots), 2))
  if (r < 14) return X.mem(X.cond(X.id(rng.pick(['t', 'f'])), X.id(root), X.id(rng.pick(roots))), rng.pick(['x', 'y']))
  if (r < 15) {
    const q = rng.int(8)
    const tf = () => X.id(rng.pick(['t', 'f']))
    // nested conditionals, also under a member access: every level yields the path of the branch taken (or none)
    if (q === 0) return X.mem(X.cond(tf(), X.cond(tf(), X.id(root), X.id(rng.pick(roots))), X.id(rng.pick(roots))), rng.pick(['x', 'y']))
    if (q === 1) return X.mem(X.cond(tf(), X.cond(tf(), X.id(root), X.num('1')), X.id(rng.pick(roots))), rng.pick(['x', 'y']))
    if (q === 2) return X.idx(X.cond(tf(), X.id(rng.pick(roots)), X.cond(tf(), genChain(rng, root, 1), genNonPath(rng, X.id(root)))), X.id(rng.pick(['kx', 'ky'])))
    if (q === 3) return X.cond(tf(), X.cond(tf(), genChain(rng, root, 1), genChain(rng, rng.pick(roots), 1)), genNonPath(rng, X.id(root)))
    // a member tail after a conditional whose branch is itself "conditional + member"
    if (q === 4) return X.mem(X.cond(tf(), X.mem(X.cond(tf(), X.id(root), X.id(rng.pick(roots))), rng.pick(['x', 'y'])), X.id(rng.pick(roots))), rng.pick(['x', 'y', 'k0']))
    if (q === 5 && rng.bool(0.5)) return X.idx(X.cond(tf(), X.idx(X.cond(tf(), X.id(root), X.num('1')), X.id(rng.pick(['kx', 'ky']))), X.id(rng.pick(roots))), X.str(rng.pick(['x', 'y'])))
    return X.cond(tf(), genChain(rng, root, 1), genNonPath(rng, X.id(root)))
  }
  if (r < 16 && modRoots.length) return X.cond(X.id(rng.pick(['t', 'f'])), X.mem(X.id(modRoots[0]), 'f'), genChain(rng, root, 1))
  return genNonPath(rng, genChain(rng, root, 1))
}

function probe(rng, roots, modRoots, id_) {
  const fam = rng.pick(['model', 'model', 'bind', 'catch', 'change', 'plain-event', 'plain'])
  const e = genBound(rng, roots, modRoots)
  const name = 'v' + id_
  if (fam === 'plain-event') return { t: 'el', tag: 'p', attrs: [{ fam: 'plain', name: 'bind' + name, value: M.ev(e) }], children: [], probe: { fam, e, key: 'bind' + name } }
  if (fam === 'plain') return { t: 'el', tag: 'p', attrs: [{ fam: 'plain', name, value: M.ev(e) }], children: [], probe: { fam, e, key: name } }
  if (fam === 'change') return { t: 'el', tag: 'p', attrs: [{ fam: 'change', name, value: M.ev(e) }], children: [], probe: { fam, e, key: name } }
  // a model: binding on a real component (`<x-a>` declares the any-typed property `value`): the component can report a change back
  if (fam === 'model' && rng.bool(0.4)) return { t: 'el', tag: 'x-a', attrs: [{ fam: 'model', name: 'value', value: M.ev(e) }], children: [], probe: { fam, e, key: 'value', component: true } }
  if (fam === 'model') return { t: 'el', tag: 'p', attrs: [{ fam: 'model', name, value: M.ev(e) }], children: [], probe: { fam, e, key: name } }
  return { t: 'el', tag: 'p', attrs: [{ fam, name, value: M.ev(e) }], children: [], probe: { fam, e, key: name } }
}

let pid = 0
function genBody(rng, depth, roots, modRoots) {
  const out = []
  for (let i = rng.range(1, 3); i > 0; i--) {
    if (depth > 0 && rng.bool(0.45)) {
      const itemName = rng.bool(0.5) ? undefined : rng.pick(['it', 'row'])
      const r = rng.int(modRoots.length ? 12 : 10)
      const itemRoots = roots.filter((x) => x === 'item' || x === 'it' || x === 'row')
      let listE
      if (r < 3) listE = X.id('list')
      else if (r < 4) listE = X.idx(X.id('lists'), X.id('sel'))
      else if (r < 5) listE = X.id('map')
      else if (r < 7 && itemRoots.length) listE = X.mem(X.id(rng.pick(itemRoots)), 'sub')
      else if (r < 8 && modRoots.length) listE = X.mem(X.mem(X.id(modRoots[0]), 'o'), 'list')
      else if (r < 9) listE = rng.pick([X.call(X.id('fn'), []), X.arr([{ k: 'v', e: X.id('a') }, { k: 'v', e: X.id('b') }]), X.num('2')])
      else if (r < 10) listE = rng.bool(0.5) ? X.cond(X.id(rng.pick(['t', 'f'])), X.id('list'), X.id('prims'))
        // a list that has a path on one branch only
        : rng.bool(0.5) ? X.cond(X.id(rng.pick(['t', 'f'])), X.id('list'), X.arr([{ k: 'v', e: X.id('a') }])) : X.cond(X.id(rng.pick(['t', 'f'])), X.call(X.id('fn'), []), X.idx(X.id('lists'), X.id('sel')))
      // a list that is data on one branch and a script module member on the other
      else if (r < 11) listE = X.cond(X.id(rng.pick(['t', 'f'])), X.id('list'), X.mem(X.mem(X.id(rng.pick(modRoots)), 'o'), 'list'))
      else listE = X.cond(X.id(rng.pick(['t', 'f'])), X.mem(X.mem(X.id(rng.pick(modRoots)), 'o'), 'list'), X.mem(X.id('map'), 'p'))
      const inner = [...roots.filter((x) => x !== (itemName ?? 'item')), itemName ?? 'item']
      out.push({ t: 'for', list: M.ev(listE), item: itemName, index: undefined, key: rng.bool(0.3) ? 'v' : undefined, cond: null, node: { t: 'block', children: [...genBody(rng, depth - 1, inner, modRoots), probeIndex(rng)] } })
    } else out.push(probe(rng, roots, modRoots, pid++))
  }
  return out
}
function probeIndex(rng) {
  const name = 'v' + pid++
  return { t: 'el', tag: 'p', attrs: [{ fam: 'model', name, value: M.ev(X.id('index')) }], children: [], probe: { fam: 'model', e: X.id('index'), key: name } }
}

export function genCase(rng) {
  pid = 0
  const inline = rng.bool(0.5)
  const ext = rng.bool(0.5)
  const wxs = []
  const scripts = {}
  const modRoots = []
  if (inline) { wxs.push({ module: 'mi', code: MODULE_CODE('mi') }); modRoots.push('mi') }
  if (ext) { wxs.push({ module: 'me', src: rng.pick(['./lib/e', '/dir/lib/e.wxs', 'lib/e.wxs']) }); scripts['dir/lib/e'] = MODULE_CODE('me'); modRoots.push('me') }
  const children = genBody(rng, 2, ['a', 'b', 'c', 'list', 'map'], modRoots)
  const file = { path: 'dir/p', imports: [], wxs, defs: [], children }
  return { fs: { files: { 'dir/p': file }, scripts, main: 'dir/p' } }
}

/** `same`, except that functions exported by the two evaluations of one script module are matched by name */
function sameMod(a, b, seen = new Map()) {
  if (typeof a === 'function' && typeof b === 'function') return a === b || (a.name === b.name && /^m[ie]_/.test(a.name))
  if (a && b && typeof a === 'object' && typeof b === 'object') {
    if (seen.get(a) === b) return true
    seen.set(a, b)
    if (Array.isArray(a) !== Array.isArray(b)) return false
    const ka = Object.keys(a); const kb = Object.keys(b)
    if (ka.length !== kb.length) return false
    return ka.every((k) => Object.prototype.hasOwnProperty.call(b, k) && sameMod(a[k], b[k], seen))
  }
  return Object.is(a, b)
}

function sameModuleValue(a, b) {
  if (typeof a === 'function' && typeof b === 'function') return a.name === b.name
  if (a && b && typeof a === 'object' && typeof b === 'object') return JSON.stringify(Object.keys(a)) === JSON.stringify(Object.keys(b))
  return Object.is(a, b)
}

export function judge(ctx, c, res) {
  const { ge, report } = ctx
  const viol = (s_, w) => report.violation(s_, { caseSeed: c.caseSeed, files: c.sources, ...w })
  if (!res || res.inconclusive) { report.inconc(res ? res.inconclusive : 'no result'); return }
  if (res.crash || (res.panics && res.panics.length)) { viol('compiler failed', { crash: res.crash, panics: res.panics }); return }
  const bad = allDiags(res).filter((d) => d.level >= LEVEL.Warn)
  if (bad.length) { viol(`documented syntax produced diagnostic "${bad[0].kind}"`, { diags: bad }); return }
  const D = mkData()
  const { comp, tr, error } = instantiate(ge, res.groups, c.fs.main, D, { propComponents: true })
  report.evals()
  if (error) { viol(`generated code threw: ${String(error.message || error).slice(0, 200)}`, { error: String(error.stack || error).slice(0, 800) }); return }
  const renderer = new Renderer({ files: c.fs.files, scripts: c.fs.scripts })
  const resolveGeneral = (p) => {
    if (!Array.isArray(p)) return { ok: false, why: 'not an array' }
    if (p[0] === 0) return { ok: true, value: getPath(D, p.slice(1)), kind: 'data' }
    if (p[0] === 1) { try { return { ok: true, value: getPath(renderer.requireScript(p[1]), p.slice(2)), kind: 'script' } } catch (e) { return { ok: false, why: 'no script registered under ' + p[1] } } }
    if (p[0] === 2) {
      const sc = c.fs.files[p[1]] && renderer.fileScopes(p[1]).find((s) => s.name === p[2] && s.src === null)
      return sc ? { ok: true, value: getPath(sc.value, p.slice(3)), kind: 'script' } : { ok: false, why: `no inline module ${p[2]} in ${p[1]}` }
    }
    return { ok: false, why: 'unknown prefix ' + p[0] }
  }
  const fileScopes = renderer.fileScopes(c.fs.main)
  const writeBacks = []
  const judgeState = (phase) => {
  // walk the abstract template with the reference environment and consume the element probes in document order
  const probes = []
  const elems = []
  if (phase === 'creation') { for (const [node, info] of tr.info) if (info.tag === 'p' || info.tag === 'x-a') elems.push(node) } else {
    // after updates nodes may have been re-created: document order is read from the live tree
    const visit = (node) => { if (node.childNodes === undefined) return; if (node.is === 'p' || node.is === 'cmp/x-a') elems.push(node); node.childNodes.forEach(visit) }
    comp.getShadowRoot().childNodes.forEach(visit)
  }
  const walk = (nodes, env) => {
    for (const n of nodes) {
      if (n.probe) probes.push({ n, env })
      else if (n.t === 'block') walk(n.children, env)
      else if (n.t === 'for') {
        const listE = n.list.parts[0].e
        const list = X.evalExpr(listE, env)
        const cl = classify(listE, env)
        const items = Array.isArray(list) ? list.map((item, index) => ({ item, index })) : list && typeof list === 'object' ? Object.keys(list).map((k) => ({ item: list[k], index: k })) : typeof list === 'number' ? Array.from({ length: list }, (_, i) => ({ item: i, index: i })) : []
        probes.push({ forList: true, n, env, cl, list })
        for (const { item, index } of items) walk([n.node], env.push({ name: n.item ?? 'item', value: item, kind: 'item', index, lpath: cl }, { name: 'index', value: index, kind: 'index' }))
      }
    }
  }
  walk(c.fs.files[c.fs.main].children, new Env(fileScopes.map((s) => ({ ...s })), D))
  // F / F.item events in order
  const fEvents = tr.events.filter((e) => e.op === 'F')
  const itemEvents = tr.events.filter((e) => e.op === 'F.item')
  let fi = 0
  let ii = 0
  let pi = 0
  for (const p of probes) {
    if (p.forList && phase !== 'creation') continue // the list paths are judged on the creation log
    if (p.forList) {
      const ev = fEvents[fi++]
      if (!ev) { viol('fewer F calls than wx:for nodes', {}); return false }
      const expectPath = p.cl && (p.cl.root === 'data' || p.cl.root === 'module')
      const got = ev.lvaluePath
      report.cell('for_list', expectPath ? 'assignable' : 'not-assignable', got ? 'path' : 'none')
      if (got) {
        const r = resolveGeneral(got)
        const okv = r.ok && (r.kind === 'script' ? sameModuleValue(r.value, ev.list) : r.value === ev.list)
        if (!expectPath) viol(`a wx:for over a non-assignable list got an l-value path ${JSON.stringify(got)}`, { list: X.printFull(p.n.list.parts[0].e) })
        else if (!okv) viol(`the l-value path ${JSON.stringify(got)} of a wx:for list does not address the list that is iterated`, { list: X.printFull(p.n.list.parts[0].e), why: r.why })
        else report.shape('F|' + X.shape(p.n.list.parts[0].e))
      } else if (!expectPath) report.shape('F-none|' + X.shape(p.n.list.parts[0].e))
      const n = Array.isArray(p.list) ? p.list.length : p.list && typeof p.list === 'object' ? Object.keys(p.list).length : typeof p.list === 'number' ? p.list : 0
      for (let k = 0; k < n; k++) {
        const ie = itemEvents[ii++]
        if (!ie) { viol('fewer item callbacks than list items', {}); return false }
        if (ie.itemLvaluePath) {
          const r = resolveGeneral(ie.itemLvaluePath)
          const okv = r.ok && (r.kind === 'script' ? sameModuleValue(r.value, ie.item) : r.value === ie.item)
          if (!okv) viol(`item l-value path ${JSON.stringify(ie.itemLvaluePath)} does not address the item`, { list: X.printFull(p.n.list.parts[0].e) })
        }
      }
      continue
    }
    const node = elems[pi++]
    if (!node) { viol(`fewer probe elements in the tree than the template denotes (${phase})`, {}); return false }
    const ch = tr.chan.get(node) || { r: {}, v: {}, p: {} }
    const { fam, e, key } = p.n.probe
    const cl = (() => { try { return classify(e, p.env) } catch { return null } })()
    const ref = X.evalExpr(e, p.env)
    let delivered, modelPath, generalPath
    if (fam === 'model' || fam === 'plain' || fam === 'plain-event') { const a = ch.r[fam === 'model' ? M.dashToCamel(key) : key] || []; delivered = a[0]; modelPath = a[1]; generalPath = a[2] }
    else if (fam === 'change') { const a = ch.p[key] || []; delivered = a[0]; generalPath = a[1] }
    else { const a = ch.v[key] || []; delivered = a[0]; generalPath = a[5] }
    report.evals()
    const isModule = cl && cl.root === 'module'
    if (!(isModule ? sameModuleValue(delivered, ref) : sameMod(delivered, ref))) { viol(`probe ${key}: delivered value ${X.show(delivered)} differs from the reference ${X.show(ref)}`, { expr: X.printFull(e) }); continue }
    const tagCell = (k, v) => report.cell('binding_x_path', fam + ':' + (cl ? cl.root : 'none'), k + '=' + v)
    if (fam === 'model') {
      tagCell('model', modelPath ? 'path' : 'none')
      if (modelPath) {
        if (!cl || cl.root !== 'data') viol(`model:${key}="{{${X.printFull(e)}}}" is not assignable data but received the path ${JSON.stringify(modelPath)}`, { expr: X.printFull(e) })
        else if (getPath(D, modelPath) !== delivered) viol(`model path ${JSON.stringify(modelPath)} does not address the value read by {{${X.printFull(e)}}} (expected ${JSON.stringify(cl.path)})`, { expr: X.printFull(e), got: modelPath, want: cl.path })
        else report.shape('model|' + X.shape(e))
      } else if (!cl || cl.root !== 'data') report.shape('model-none|' + X.shape(e))
      else report.count('assignable_without_path')
      if (phase === lastPhase) writeBacks.push({ node, e, cl, modelPath, key, pi, native: !p.n.probe.component })
    } else {
      // what the attached listener really hands over when the event fires (the runtime may keep an older listener)
      if (['bind', 'catch'].includes(fam) && typeof delivered === 'function') {
        const fired = []
        const pgw = comp._$tmplInst && comp._$tmplInst.procGenWrapper
        if (pgw) {
          const prevWrapper = pgw.eventListenerWrapper
          pgw.eventListenerWrapper = (caller, ev, f, path) => { fired.push({ f, path }) }
          try { node.triggerEvent(key, {}, {}) } catch (e) { /* listeners of the probe do not run user code */ } finally { pgw.eventListenerWrapper = prevWrapper }
          report.count('events_fired')
          if (fired.length !== 1) viol(`firing ${fam}:${key} reached ${fired.length} listener(s) (${phase})`, { expr: X.printFull(e) })
          else if (!(isModule ? sameModuleValue(fired[0].f, delivered) : fired[0].f === delivered)) viol(`the listener attached for ${fam}:${key}="{{${X.printFull(e)}}}" calls another handler than the one last delivered (${phase})`, { expr: X.printFull(e) })
          else if (JSON.stringify(fired[0].path ?? null) !== JSON.stringify(generalPath ?? null)) viol(`the listener attached for ${fam}:${key}="{{${X.printFull(e)}}}" hands over the l-value path ${JSON.stringify(fired[0].path ?? null)}, the path last delivered is ${JSON.stringify(generalPath ?? null)} (${phase})`, { expr: X.printFull(e) })
        }
      }
      tagCell('general', generalPath ? 'path' : 'none')
      if (generalPath) {
        const r = resolveGeneral(generalPath)
        if (fam === 'plain') viol(`a plain attribute received an l-value path ${JSON.stringify(generalPath)}`, { expr: X.printFull(e) })
        else if (!cl) viol(`${fam}:${key}="{{${X.printFull(e)}}}" is not assignable but received the path ${JSON.stringify(generalPath)}`, { expr: X.printFull(e) })
        else if (!r.ok || !(r.kind === 'script' ? sameModuleValue(r.value, delivered) : r.value === delivered)) viol(`general path ${JSON.stringify(generalPath)} does not address the value read by {{${X.printFull(e)}}}`, { expr: X.printFull(e), why: r.why })
        else report.shape(fam + '|' + X.shape(e))
      } else if (!cl) report.shape(fam + '-none|' + X.shape(e))
    }
  }
  return true
  } // judgeState
  const before = report.violations ? report.violations.length : 0
  if (!judgeState('creation')) return
  // update phase: the selectors of conditionals, dynamic keys and lists change; the paths handed over by the update
  // passes must address what the expressions read *now* (the data object is shared with the component: D is current)
  const steps = STEPS
  for (let k = 0; k < steps.length; k++) {
    if (report.violations && report.violations.length > before) return
    try { withWarnings(ge, tr, () => comp.setData(steps[k])) } catch (e) { viol(`update step ${k} threw: ${String(e.message || e).slice(0, 200)}`, { step: steps[k] }); return }
    if (comp.data !== D) { for (const key of Object.keys(comp.data)) D[key] = comp.data[key] }
    report.count('update_steps')
    if (!judgeState('after update ' + k)) return
  }
  if (report.violations && report.violations.length > before) return
  // get-put through the runtime itself (after everything else has been judged): the component reports a new value of
  // its property; the host data must change exactly at the location the expression reads now, and nowhere at all
  // when the expression is not assignable now
  const fingerprint = (skip) => X.show(Object.fromEntries(Object.entries(comp.data).filter(([k]) => k !== skip)), 0)
  const deepCopy = (v) => (Array.isArray(v) ? v.map(deepCopy) : v && typeof v === 'object' ? Object.fromEntries(Object.entries(v).map(([k, x]) => [k, deepCopy(x)])) : v)
  for (const { node, e, cl, modelPath, key, pi, native } of writeBacks) {
    const SENT = { writeBack: key + ':' + pi }
    const assignable = !!(cl && cl.root === 'data' && modelPath)
    // a write may create missing intermediate objects below its root field: everything outside that field must stay as it is
    const rootField = assignable ? cl.path[0] : undefined
    const was = fingerprint(rootField)
    const savedRoot = assignable ? deepCopy(comp.data[rootField]) : undefined
    // (a native node reports through the listener the runtime installed for the attribute, if any)
    const report_ = native ? () => { const l = node.getModelBindingListeners()[key]; if (l) l(SENT); else if (assignable) throw new Error('no model listener is installed') } : () => node.setData({ value: SENT })
    try { withWarnings(ge, tr, report_) } catch (err) { viol(`reporting a change from the component threw: ${String(err.message || err).slice(0, 160)}`, { expr: X.printFull(e) }); return }
    report.count('write_backs')
    if (assignable) {
      if (getPath(comp.data, cl.path) !== SENT) { viol(`model:value="{{${X.printFull(e)}}}": the value reported by the component did not arrive at ${JSON.stringify(cl.path)}`, { expr: X.printFull(e), modelPath }); return }
      if (fingerprint(rootField) !== was) { viol(`model:value="{{${X.printFull(e)}}}": reporting a change altered the host data outside ${JSON.stringify(cl.path)}`, { expr: X.printFull(e) }); return }
      report.shape('write-back|' + X.shape(e))
      try { withWarnings(ge, tr, () => comp.setData({ [rootField]: savedRoot })) } catch (err) { return }
    } else if (fingerprint(undefined) !== was) {
      viol(`model:${key}="{{${X.printFull(e)}}}" is not assignable now, but a change reported by the ${native ? 'native node' : 'component'} was written into the host data`, { expr: X.printFull(e), modelPath: modelPath ?? null })
      return
    } else report.shape('write-back-none|' + X.shape(e))
  }
}

export function makeCases(ctx, n, fixed = null) {
  const cases = []
  for (let i = 0; i < n; i++) {
    const caseSeed = fixed ? fixed[i] : ctx.rng.u32()
    if (caseSeed === undefined) break
    const r = new Rng(caseSeed)
    const g = genCase(r)
    const sources = [[g.fs.main, M.printFile(g.fs.files[g.fs.main], { rng: r, spacing: r.bool(0.3), redundant: r.bool(0.3) ? 0.2 : 0 })]]
    cases.push({ id: i, caseSeed, ...g, sources })
  }
  return cases
}

export async function run(ctx) {
  const { report, tier } = ctx
  const N = tier === 'thorough' ? 30000 : 3000
  const cases = makeCases(ctx, N)
  for (let i = 0; i < cases.length; i += 500) {
    const batch = cases.slice(i, i + 500)
    const results = compileMany(batch.map((c) => ({ id: c.id, files: c.sources, scripts: Object.entries(c.fs.scripts) })))
    for (const c of batch) { judge(ctx, c, results.get(c.id)); report.sample({ files: c.sources }, 3) }
  }
  report.count('templates', cases.length)
}

export async function replay(ctx) {
  for (const c of makeCases(ctx, 1, [ctx.replay.witness.caseSeed])) judge(ctx, c, compileMany([{ id: c.id, files: c.sources, scripts: Object.entries(c.fs.scripts) }]).get(c.id))
}
