// C05 — names in expressions resolve lexically to the innermost enclosing scope.
// Every possible referent carries a distinct sentinel (data field "D:a", module "M:…", slot value "S:a",
// loop items are tagged strings built from what their list expression resolved to), so a wrong resolution
// names the scope it leaked from. Oracle: the reference environment chain of ref.mjs.
import * as X from '../expr.mjs'
import * as M from '../tmodel.mjs'
import { Renderer, normalizeObserved } from '../ref.mjs'
import { compileMany, instantiate, allDiags, snap, LEVEL } from '../kit.mjs'
import { diffSnap, showSnap, evalGroups, instrumentedTemplate, Trace } from '../rt.mjs'
import { Rng } from '../prng.mjs'

export const rule = 'distinct = scope structure (nesting of for/slot-value/module/template scopes with the names they introduce) x probe form; non-trivial = the probed name has >=2 candidate referents in scope or in data'
export const assumptions = [
  'the reference environment chain: innermost scope first, index after item, list expression evaluated outside its own scope, <template name> bodies see modules only',
  'slot-value scopes are exercised on direct children of a dynamic-slots child component compiled by the same compiler',
]

const NAMES = ['item', 'index', 'a', 'b', 'm', 'x']
const tbl = new Proxy({}, { get: (t, k) => (typeof k === 'string' ? 'tbl[' + k + ']' : undefined), has: () => false, ownKeys: () => [], getOwnPropertyDescriptor: () => undefined })
function fnp(...args) { return 'fn(' + args.map((a) => String(a)).join('|') + ')' }

export function makeData() {
  const D = { fn: fnp, tbl }
  for (const n of NAMES) D[n] = 'D:' + n
  return D
}

/** Every expression form with the probed identifier at one child position. */
export function probeForms(n) {
  const I = () => X.id(n)
  const s = (v) => X.str(v)
  return [
    ['id', I()],
    ['arr-after-hole', X.arr([{ k: 'hole' }, { k: 'v', e: I() }])],
    ['arr-first', X.arr([{ k: 'v', e: I() }, { k: 'hole' }])],
    ['arr-after-2-holes', X.arr([{ k: 'hole' }, { k: 'hole' }, { k: 'v', e: I() }])],
    ['arr-after-3-holes', X.arr([{ k: 'v', e: X.num('0') }, { k: 'hole' }, { k: 'hole' }, { k: 'hole' }, { k: 'v', e: I() }])],
    ['arr-between-holes', X.arr([{ k: 'hole' }, { k: 'v', e: X.num('0') }, { k: 'hole' }, { k: 'v', e: I() }, { k: 'hole' }])],
    ['arr-hole-then-spread', X.arr([{ k: 'hole' }, { k: 'hole' }, { k: 'spread', e: X.arr([{ k: 'hole' }, { k: 'v', e: I() }]) }])],
    ['arr-spread', X.arr([{ k: 'spread', e: X.arr([{ k: 'v', e: I() }]) }, { k: 'v', e: X.num('1') }])],
    ['arr-after-spread', X.arr([{ k: 'spread', e: X.arr([]) }, { k: 'v', e: I() }])],
    ['call-arg', X.call(X.id('fn'), [s('p'), I()])],
    ['call-arg-2', X.call(X.id('fn'), [I(), I()])],
    ['obj-value', X.obj([{ k: 'kv', name: 'k', e: I() }])],
    ['obj-short', X.obj([{ k: 'short', name: n }])],
    ['obj-spread', X.obj([{ k: 'spread', e: X.obj([{ k: 'kv', name: 'k', e: I() }]) }, { k: 'kv', name: 'z', e: I() }])],
    ['obj-after-spread', X.obj([{ k: 'spread', e: X.obj([]) }, { k: 'short', name: n }])],
    ['index-key', X.idx(X.id('tbl'), I())],
    ['index-object', X.idx(X.arr([{ k: 'v', e: X.num('0') }, { k: 'v', e: I() }]), X.num('1'))],
    ['member-object', X.mem(I(), 'length')],
    ['cond-test', X.cond(I(), s('T'), s('F'))],
    ['cond-true', X.cond(X.num('1'), I(), s('F'))],
    ['cond-false', X.cond(X.num('0'), s('T'), I())],
    ['unary', X.un('typeof', I())],
    ['binary-left', X.bin('+', I(), s('>'))],
    ['binary-right', X.bin('+', s('<'), I())],
    ['nullish-left', X.bin('??', I(), s('N'))],
    ['nullish-right', X.bin('??', X.kw('null'), I())],
    ['logic-right', X.bin('||', X.num('0'), I())],
    ['nested', X.bin('+', X.idx(X.arr([{ k: 'hole' }, { k: 'v', e: X.obj([{ k: 'kv', name: 'k', e: X.call(X.id('fn'), [I()]) }]) }]), X.num('1')), s(''))],
  ]
}

let forCounter = 0
function probesFor(rng, visible, ctxTag) {
  // a few probe elements: names that are shadowed are preferred
  const out = []
  const k = rng.range(1, 3)
  for (let i = 0; i < k; i++) {
    const n = rng.pick(NAMES)
    const forms = probeForms(n)
    const [tag, e] = rng.pick(forms)
    const asText = rng.bool(0.25)
    const mixed = rng.bool(0.2)
    if (asText) out.push({ t: 'el', tag: 'q', attrs: [], children: [{ t: 'text', v: mixed ? M.mv('[', e, ']') : M.ev(e) }], probe: { n, form: tag, ctxTag, where: mixed ? 'mixed-text' : 'text' } })
    else out.push({ t: 'el', tag: 'p', attrs: [{ fam: rng.pick(['plain', 'data:', 'mark', 'class', 'id', 'slot']), name: 'v', value: mixed ? M.mv('[', e, ']') : M.ev(e) }], children: [], probe: { n, form: tag, ctxTag, where: mixed ? 'mixed-attr' : 'attr' } })
  }
  return out
}

function listLiteral(rng, tagStr) {
  const n1 = rng.pick(NAMES)
  const n2 = rng.pick(NAMES)
  if (rng.bool(0.25)) return X.obj([{ k: 'kv', name: 'p', e: X.bin('+', X.str(tagStr + '.p:'), X.id(n1)) }, { k: 'kv', name: 'q', e: X.bin('+', X.str(tagStr + '.q:'), X.id(n2)) }])
  return X.arr([{ k: 'v', e: X.bin('+', X.str(tagStr + '.0:'), X.id(n1)) }, { k: 'v', e: X.bin('+', X.str(tagStr + '.1:'), X.id(n2)) }])
}

function genScopeNodes(rng, depth, inComp, stats, noTref = false) {
  const nodes = []
  const count = rng.range(1, 3)
  for (let i = 0; i < count; i++) {
    const r = noTref ? rng.int(9) : rng.int(10)
    if (r < 3 || depth <= 0) { nodes.push(...probesFor(rng)); continue }
    if (r < 8) {
      const id_ = ++forCounter
      const renameItem = rng.bool(0.5)
      const item = renameItem ? rng.pick(NAMES) : undefined
      let index = rng.bool(0.5) ? rng.pick(NAMES) : undefined
      // the same name for item and index is legal: `index` is introduced after `item`, so it wins (kept in half of the collisions)
      if ((index ?? 'index') === (item ?? 'item') && rng.bool(0.5)) index = index === undefined ? undefined : (item ?? 'item') === 'b' ? 'x' : 'b'
      const body = genScopeNodes(rng, depth - 1, false, stats, noTref)
      const cond = rng.bool(0.2) ? M.ev(X.id(rng.pick(NAMES))) : null
      const wrapper = rng.bool(0.5) ? { t: 'block', children: body } : { t: 'el', tag: 'w', attrs: [{ fam: 'plain', name: 'v', value: M.ev(X.id(rng.pick(NAMES))) }], children: body }
      nodes.push({ t: 'for', list: M.ev(listLiteral(rng, 'F' + id_)), item, index, key: rng.bool(0.3) ? '*this' : undefined, cond, node: wrapper })
      stats.fors++
      continue
    }
    if (r < 9) {
      nodes.push({ t: 'if', branches: [{ cond: M.ev(X.id(rng.pick(NAMES))), node: { t: 'block', children: genScopeNodes(rng, depth - 1, false, stats, noTref) } }], els: { t: 'block', children: probesFor(rng) } })
      continue
    }
    nodes.push({ t: 'tref', is: M.sv(rng.pick(['t1', 't1', 't2'])), data: X.obj([{ k: 'kv', name: 'a', e: X.bin('+', X.str('T:'), X.id(rng.pick(NAMES))) }, ...(rng.bool(0.5) ? [{ k: 'short', name: rng.pick(NAMES) }] : [])]) })
    stats.trefs++
  }
  return nodes
}

export function genCase(rng) {
  forCounter = 0
  const stats = { fors: 0, trefs: 0 }
  const modName = rng.bool(0.5) ? rng.pick(['m', 'a', 'item', 'index']) : null
  const wxs = modName ? [{ module: modName, code: `module.exports = "M:${modName}"` }] : []
  // a second module loaded by `src`, declared after (or before) the inline one: each name keeps its own module
  const scripts = {}
  if (rng.bool(0.4)) {
    const extName = rng.pick(['e', 'b', 'index', 'm'].filter((x) => x !== modName))
    scripts['s/ext'] = `module.exports = "X:${extName}"`
    const decl = { module: extName, src: rng.pick(['/s/ext', './s/ext.wxs', 's/ext']) }
    if (rng.bool(0.7)) wxs.push(decl); else wxs.unshift(decl)
  }
  // a second definition with loops of its own: every `<template name>` body starts from the module scopes of the file
  const defs = [{ name: 't1', children: probesFor(rng) }, { name: 't2', children: genScopeNodes(rng, 2, false, stats, true) }]
  let children = genScopeNodes(rng, 3, false, stats)
  // slot-value scopes: direct children of the dynamic-slots component
  let withComp = rng.bool(0.4)
  if (withComp) {
    const kids = []
    for (let i = rng.range(1, 2); i > 0; i--) {
      const slotVals = []
      if (rng.bool(0.8)) slotVals.push({ name: 'a', as: rng.bool(0.5) ? undefined : rng.pick(NAMES) })
      if (rng.bool(0.6)) slotVals.push({ name: 'b-c', as: rng.bool(0.3) ? undefined : rng.pick(NAMES.filter((x) => !slotVals.some((s) => (s.as ?? M.dashToCamel(s.name)) === x))) })
      kids.push({ t: 'el', tag: 'h', attrs: [{ fam: 'plain', name: 'v', value: M.ev(X.id(rng.pick(NAMES))) }, { fam: 'plain', name: 'w', value: M.ev(X.id('bC')) }], slotVals, children: genScopeNodes(rng, 2, true, stats) })
    }
    // (`slot:` values are documented for direct children of the component only; nested receivers are left to C01's structure soup)
    const compKids = kids
    children = [...children, { t: 'el', tag: 'comp', attrs: [], children: compKids }, ...probesFor(rng)]
  }
  const file = { path: 'p', imports: [], wxs, defs, children }
  return { fs: { files: { p: file }, scripts, main: 'p' }, withComp, stats }
}

const CHILD_SRC = '<slot a="{{sa}}" b-c="{{sb}}"/>'
const SLOT_VALUES = { a: 'S:a', bC: 'S:bC' }

export function judge(ctx, c, res, childGroups) {
  const { ge, report } = ctx
  const viol = (s_, w) => report.violation(s_, { caseSeed: c.caseSeed, files: c.sources, ...w })
  if (!res || res.inconclusive) { report.inconc(res ? res.inconclusive : 'no result'); return }
  if (res.crash || (res.panics && res.panics.length)) { viol('compiler failed', { crash: res.crash, panics: res.panics }); return }
  const bad = allDiags(res).filter((d) => d.level >= LEVEL.Warn)
  if (bad.length) { viol(`documented syntax produced diagnostic "${bad[0].kind}"`, { diags: bad }); return }
  const D = makeData()
  const want = new Renderer({ files: c.fs.files, scripts: c.fs.scripts || {} }, { slotValues: SLOT_VALUES }).renderMain('p', D)
  const space = new ge.ComponentSpace()
  let using = {}
  if (c.withComp) {
    const ctr = new Trace(); ctr.keep = false
    const childDef = space.defineComponent({ options: { dynamicSlots: true, dataDeepCopy: ge.DeepCopyKind.None, propertyPassingDeepCopy: ge.DeepCopyKind.None }, template: instrumentedTemplate(childGroups, 'child', ctr), data: () => ({ sa: 'S:a', sb: 'S:bC' }) })
    using = { comp: childDef.general() }
  }
  const { comp, tr, error } = instantiate(ge, res.groups, 'p', D, { keepEvents: false, space, using })
  report.evals()
  if (error) { viol(`generated code threw: ${String(error.message || error).slice(0, 200)}`, { error: String(error.stack || error).slice(0, 800) }); return }
  const got = normalizeObserved(snap(ge, comp, tr, {}))
  const d = diffSnap(got, want)
  if (d) viol(`a name resolved to the wrong scope: ${d}`.slice(0, 500), { got: showSnap(got).slice(0, 3000), want: showSnap(want).slice(0, 3000), diff: d })
}

function coverage(report, file) {
  const visit = (nodes, scopes, depth) => {
    for (const n of nodes) {
      if (n.probe) {
        const cands = scopes.filter((s) => s === n.probe.n).length + 1
        report.cell('probe_form_x_candidates', n.probe.form, cands >= 3 ? '3+' : String(cands))
        report.cell('probe_where', n.probe.where, 'n')
        if (cands >= 2) report.shape(n.probe.form + '|' + scopes.join(',') + '|' + n.probe.n)
      }
      if (n.t === 'el') visit(n.children, [...scopes, ...(n.slotVals || []).map((s) => s.as ?? M.dashToCamel(s.name))], depth)
      else if (n.t === 'block') visit(n.children, scopes, depth)
      else if (n.t === 'for') { visit([n.node], [...scopes, n.item ?? 'item', n.index ?? 'index'], depth + 1); report.cell('for_depth', String(depth + 1), 'n') }
      else if (n.t === 'if') { for (const b of n.branches) visit([b.node], scopes, depth); if (n.els) visit([n.els], scopes, depth) }
    }
  }
  const mods = (file.wxs || []).map((w) => w.module)
  visit(file.children, mods, 0)
  for (const d of file.defs) visit(d.children, mods, 0)
}

export function makeCases(ctx, n, fixed = null) {
  const cases = []
  for (let i = 0; i < n; i++) {
    const caseSeed = fixed ? fixed[i] : ctx.rng.u32()
    if (caseSeed === undefined) break
    const r = new Rng(caseSeed)
    const g = genCase(r)
    const sources = [['p', M.printFile(g.fs.files.p, { rng: r, spacing: r.bool(0.3), between: true })]]
    cases.push({ id: i, caseSeed, ...g, sources })
  }
  return cases
}

export async function run(ctx) {
  const { report, tier } = ctx
  const N = tier === 'thorough' ? 20000 : 2500
  const childRes = compileMany([{ id: 'child', files: [['child', CHILD_SRC]], scripts: [] }]).get('child')
  const childGroups = evalGroups(childRes.groups)
  const cases = makeCases(ctx, N)
  for (let i = 0; i < cases.length; i += 400) {
    const batch = cases.slice(i, i + 400)
    const results = compileMany(batch.map((c) => ({ id: c.id, files: c.sources, scripts: Object.entries(c.fs.scripts || {}) })))
    for (const c of batch) {
      judge(ctx, c, results.get(c.id), childGroups)
      coverage(report, c.fs.files.p)
      report.sample({ files: c.sources }, 3)
    }
  }
  report.count('templates', cases.length)
}

export async function replay(ctx) {
  const childGroups = evalGroups(compileMany([{ id: 'child', files: [['child', CHILD_SRC]], scripts: [] }]).get('child').groups)
  for (const c of makeCases(ctx, 1, [ctx.replay.witness.caseSeed])) judge(ctx, c, compileMany([{ id: c.id, files: c.sources, scripts: Object.entries(c.fs.scripts || {}) }]).get(c.id), childGroups)
}
