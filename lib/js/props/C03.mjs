// C03 — binding expressions evaluate with JavaScript semantics.
// Events: the value handed to R.r(N, "v<i>", value) for `<x v<i>="{{ e }}"/>`, per data environment.
// Oracle: same(value, evalExpr(e, env)) — the reference interprets the *abstract* expression with the JS
// engine's own operators; precedence is decided by the SUT's parser because the text is printed with
// minimal parentheses (ECMAScript table) or with redundant ones.
import * as X from '../expr.mjs'
import { compileMany, instantiate, allDiags, LEVEL } from '../kit.mjs'
import { makeEnv, envLookup } from '../values.mjs'
import { Rng } from '../prng.mjs'

export const rule = 'distinct = structural shape of the abstract expression (literals/identifiers erased) + spelling class; non-trivial = >=1 operator and the reference value is not undefined in >=1 environment'
export const assumptions = [
  'the reference evaluator applies the JS engine\'s operators to the abstract tree; member reads on null/undefined yield undefined; calls are plain calls',
  'array spreads are generated for array operands only; (expr, env) pairs on which the reference throws are outside the property and skipped (counted)',
  'numeric literals are read by the engine in sloppy mode (legacy octal)',
]

const NAMES = ['a', 'b', 'c', 'd', 'e', 'f']
const CTX = { names: NAMES, arrays: ['arr'], objects: ['ob'], fns: ['fn'], ctors: ['Ctor'] }

function literalWorkload() {
  const out = []
  const digs = ['0', '1', '7', '8', '9']
  const prefixes = ['', '0', '0x', '0X', '.', '0.', '1.']
  const hexd = ['0', '9', 'a', 'F', 'f']
  for (const p of prefixes) {
    const alphabet = p === '0x' || p === '0X' ? hexd : digs
    const strs = ['']
    for (let len = 1; len <= 3; len++) {
      const n = strs.length
      for (let i = 0; i < n; i++) if (strs[i].length === len - 1) for (const d of alphabet) strs.push(strs[i] + d)
    }
    for (const s of strs) out.push(p + s)
  }
  for (const fill of ['7', '9', 'f', '1']) for (let len = 1; len <= 40; len += len < 24 ? 1 : 4) {
    if (fill !== 'f') { out.push(fill.repeat(len)); out.push('0' + fill.repeat(len)); out.push('1.' + fill.repeat(len)); out.push('.' + fill.repeat(len)) }
    if (fill !== '9') out.push('0x' + fill.repeat(len))
  }
  for (const m of ['1', '0', '9.5', '.5', '5.', '123']) for (const sgn of ['e', 'e-', 'e+', 'E', 'E-', 'E+']) for (const ex of ['0', '1', '5', '21', '308', '309', '400', '999'])
    out.push(m + sgn + ex)
  // rounding boundaries of the f64 reading: integers of L significant bits that sit on, just above and just
  // below a round-half-even tie (even and odd lower neighbour), the deciding bit directly below the tie
  // or at bit 0, in every radix the grammar accepts
  const spell = (v) => { out.push('0x' + v.toString(16)); out.push('0' + v.toString(8)); out.push(v.toString(10)) }
  for (let L = 54; L <= 132; L += L < 72 ? 1 : 7) {
    const top = 1n << BigInt(L - 1), half = 1n << BigInt(L - 54), ulp = half << 1n
    for (const base of [top, top + ulp, top + (ulp << 3n) + ulp, (top << 1n) - (ulp << 1n), (top << 1n) - ulp]) {
      const tie = base + half
      for (const v of [tie, tie + 1n, tie - 1n, tie + (half >> 1n), tie - (half >> 1n), base + 1n]) if (v > 0n) spell(v)
    }
  }
  const seen = new Set()
  return out.filter((s) => s !== '' && s !== '.' && !seen.has(s) && seen.add(s))
}

function jsAccepts(raw) {
  try { return { ok: true, v: X.numValue(raw) } } catch { return { ok: false } }
}

const STR_ESC = ['\n', '\t', '\b', '\f', '\v', '\r', '\0', '\x7f', '\x80', '\xff', ' ', ' ', '﻿', "'", '"', '\\', 'a', 'x', 'u', '😀', '\u{10ffff}', '}', '{', '<', '>', '&', ' ']

function buildWork(ctx) {
  const { tier, seed } = ctx
  const work = []
  const leafRng = new Rng(seed + 101)
  const leafOf = () => {
    const r = leafRng.int(10)
    if (r < 6) return X.id(leafRng.pick(NAMES))
    if (r < 8) return X.num(leafRng.pick(['0', '1', '2', '3', '.5', '0x10']))
    if (r < 9) return X.str(leafRng.pick(['', 'a', '1', 'x']))
    return X.kw(leafRng.pick(X.KW_POOL))
  }
  // (a)+(b): exhaustive depth-2 operator pairs, minimal and redundant parentheses
  for (const c of X.enumDepth2(leafOf)) {
    work.push({ e: c.e, cls: 'depth2-min', style: {}, tag: c.tag })
    work.push({ e: c.e, cls: 'depth2-redundant', style: { redundant: 0.5, spacing: true }, tag: c.tag })
  }
  // (c) random trees
  const nRandom = tier === 'thorough' ? 600000 : 40000
  const r = new Rng(seed * 31 + 5)
  for (let i = 0; i < nRandom; i++) {
    const depth = r.range(2, tier === 'thorough' ? 7 : 6)
    work.push({ e: X.genExpr(r, depth, CTX), cls: 'random', style: { spacing: r.bool(0.5), redundant: r.bool(0.3) ? 0.15 : 0 } })
  }
  // left/right-nested chains up to length 64 of every binary operator
  for (const [op] of X.BINARY) {
    if (op === 'instanceof') continue
    for (const len of tier === 'thorough' ? [3, 8, 33, 64] : [3, 17]) {
      let l = X.id('a'); let rr = X.id('a')
      for (let i = 1; i < len; i++) { l = X.bin(op, l, X.id(NAMES[i % NAMES.length])); rr = X.bin(op, X.id(NAMES[i % NAMES.length]), rr) }
      work.push({ e: l, cls: 'chain-left', style: {} })
      if (len <= 33) work.push({ e: rr, cls: 'chain-right', style: {} })
    }
  }
  // (d) literals
  for (const raw of literalWorkload()) work.push({ e: X.num(raw), cls: 'num-literal', style: {}, literal: raw })
  for (const a of STR_ESC) for (const b of ['', '0', '7', 'a', a]) work.push({ e: X.str(a + b), cls: 'str-literal', style: { forceEscapes: true } })
  return work
}

/** Finding recorded by its witness only: sub-expressions are hoisted and evaluated eagerly. */
function runFindingWitnesses(ctx) {
  const { ge, report } = ctx
  const src = '<x v="{{ a ? (f(a) ? 1 : 2) : 3 }}"/>'
  const res = compileMany([{ id: 0, files: [['p', src]], scripts: [] }]).get(0)
  const r = instantiate(ge, res.groups, 'p', { a: null, f: (x) => x.length > 0 }, {})
  if (r.error && /null|undefined/.test(String(r.error.message))) report.knownHit('eager-subexpression-evaluation', 'the conditions of `?:`, the left operands of `??` and computed member keys are hoisted into statements and evaluated even when JavaScript would not reach them: `{{ a ? (f(a) ? 1 : 2) : 3 }}` with a = null calls f(null) (which may throw; JavaScript gives 3)')
  else report.notes.push('STALE-FINDING eager-subexpression-evaluation: the recorded witness no longer reproduces')
}

export async function run(ctx) {
  if (ctx.shard === 0) runFindingWitnesses(ctx)
  const { ge, report, shard, nshards, tier, seed } = ctx
  const all = buildWork(ctx)
  const mine = all.filter((_, i) => i % nshards === shard)
  const NENV = tier === 'thorough' ? 12 : 6
  const envRng = new Rng(seed + 4242)
  const envs = Array.from({ length: NENV }, () => makeEnv(envRng, NAMES))
  // a fixed environment that distinguishes the classic precedence pitfalls
  envs[0] = { ...envs[0], a: 0, b: 5, c: 2, d: '', e: null, f: false }
  // ... and one in which floating-point arithmetic is not associative: a grouping that is dropped changes the value
  // (0.1 * (0.2 * 0.3) != (0.1 * 0.2) * 0.3, 1e200 * (1e200 * 1e-200) is finite, (1e200 * 1e200) * 1e-200 is not)
  envs[1] = { ...envs[1], a: 0.1, b: 0.2, c: 0.3, d: 1e200, e: 1e-200, f: 7.7 }
  const printRng = new Rng(seed * 13 + shard)

  // reference pre-pass: drop expressions on which the reference throws in some environment
  const items = []
  for (const w of mine) {
    const style = { ...w.style, rng: printRng }
    let text
    try { text = X.printBinding(w.e, style) } catch (e) { throw new Error('printer failed: ' + e.message) }
    if (w.literal) {
      const js = jsAccepts(w.literal)
      if (!js.ok) { report.count('literal_js_rejects'); w.jsRejects = true }
    }
    const refs = []
    let thrown = false
    if (!w.jsRejects) {
      for (const D of envs) {
        try { refs.push(X.evalExpr(w.e, envLookup(D))) } catch (e) { thrown = true; break }
      }
    }
    if (thrown) { report.count('reference_throws_skipped'); continue }
    items.push({ ...w, text, refs, asCondition: !w.literal && (w.cls.startsWith('depth2') || w.cls.startsWith('chain') || items.length % 3 === 0) })
  }
  const BATCH = 100
  const batches = []
  for (let i = 0; i < items.length; i += BATCH) batches.push(items.slice(i, i + BATCH))

  const judgeBatch = (batch, res, attribute) => {
    // returns false if the batch could not be judged as a whole (needs splitting)
    if (!res || res.crash || res.inconclusive) {
      if (attribute) {
        if (res && res.crash) report.violation(`compiler process died on ${batch[0].text}`, { expr: X.printFull(batch[0].e), wxml: batch[0].text, crash: res.crash })
        else report.inconc(res ? res.inconclusive : 'no result')
        return true
      }
      return false
    }
    if (res.panics && res.panics.length) {
      if (!attribute) return false
      report.violation(`compiler panicked on ${batch[0].text}: ${res.panics[0].msg} at ${res.panics[0].site}`, { wxml: batch[0].text, expr: X.printFull(batch[0].e), panic: res.panics[0] })
      return true
    }
    const diags = allDiags(res)
    const bad = diags.filter((d) => d.level >= LEVEL.Error)
    if (bad.length) {
      if (!attribute) return false
      const w = batch[0]
      if (w.cls === 'num-literal') { report.count('literal_sut_rejects'); return true } // outside "accepted radix and magnitude"
      report.violation(`supported expression rejected with "${bad[0].kind}": ${w.text}`, { wxml: w.text, expr: X.printFull(w.e), diags: bad })
      return true
    }
    if (!res.groups) { report.inconc('no groups artefact: ' + JSON.stringify(res).slice(0, 200)); return true }
    for (let ei = 0; ei < envs.length; ei++) {
      const D = envs[ei]
      const { comp, tr, error } = instantiate(ge, res.groups, 'p', D, { keepEvents: false })
      if (error) {
        if (!attribute) return false
        const w = batch[0]
        if (w.jsRejects) { report.count('literal_js_rejects_sut_throws'); return true }
        report.violation(`generated code threw for ${w.text}: ${String(error.message || error).slice(0, 160)}`, { wxml: w.text, expr: X.printFull(w.e), env: ei, data: X.show(D), error: String(error.stack || error).slice(0, 600), reference: X.show(w.refs[ei]) })
        return true
      }
      // all attributes are on the element(s) <x>; collect by attribute name
      const got = {}
      for (const c of tr.chan.values()) for (const [name, v] of Object.entries(c.r)) got[name] = v[0]
      const tags = new Set()
      for (const info of tr.info.values()) tags.add(info.tag)
      batch.forEach((w, k) => {
        if (w.jsRejects) return
        if (w.asCondition && !w.failed) {
          report.evals()
          const want = w.refs[ei] ? 'y' : 'none' // (the elif repeats the condition: it can never be taken)
          const gotBranch = tags.has('y' + k) ? 'y' : tags.has('z' + k) ? 'z' : 'none'
          report.cell('condition_position', want, gotBranch)
          if (gotBranch !== want) {
            report.violation(`wx:if="${w.text}" took the branch ${gotBranch}; JavaScript gives the condition ${X.show(w.refs[ei])} (${want})`, { wxml: w.text, meaning: X.printFull(w.e), cls: w.cls, env: ei, data: X.show(D), position: 'wx:if' })
            w.failed = true
          }
        }
      })
      batch.forEach((w, k) => {
        if (w.jsRejects) return
        report.evals()
        const name = 'v' + k
        const have = Object.prototype.hasOwnProperty.call(got, name)
        const ok = have && X.same(got[name], w.refs[ei])
        if (!ok) {
          report.violation(`${w.text} evaluated to ${have ? X.show(got[name]) : '<not delivered>'}; JavaScript gives ${X.show(w.refs[ei])}`, {
            wxml: w.text, meaning: X.printFull(w.e), cls: w.cls, env: ei, data: X.show(D), got: have ? X.show(got[name]) : null, want: X.show(w.refs[ei]),
          })
          w.failed = true
        }
      })
    }
    for (const w of batch) {
      if (w.jsRejects) { report.count('literal_js_rejects_sut_accepts'); continue }
      const nontrivial = X.countOps(w.e) >= 1 && w.refs.some((v) => v !== undefined)
      if (nontrivial || w.cls.endsWith('literal')) report.shape(w.cls + ':' + X.shape(w.e) + (w.literal ? ':' + w.literal.replace(/[0-9a-f]/gi, 'd') : ''))
      report.cell('classes', w.cls, w.failed ? 'failed' : 'ok')
      X.walk(w.e, (n) => { if (n.t === 'bin' || n.t === 'un') report.cell('operators', n.op, 'seen'); else report.cell('forms', n.t, 'seen') })
      report.sample({ wxml: w.text, meaning: X.printFull(w.e), reference_values: w.refs.slice(0, 3).map((v) => X.show(v)) })
    }
    return true
  }

  // every expression is also used as a `wx:if` condition (a different emission context: the branch selector chain)
  const toCase = (batch, id) => ({ id, files: [['p', '<x ' + batch.map((w, k) => `v${k}="${w.text}"`).join(' ') + '/>' + batch.map((w, k) => (w.asCondition ? `<y${k} wx:if="${w.text}"/><z${k} wx:elif="${w.text}"/>` : '')).join('')]], scripts: [] })
  // compile all batches in one driver process, then execute
  const results = compileMany(batches.map((b, i) => toCase(b, i)))
  const retry = []
  batches.forEach((b, i) => { if (!judgeBatch(b, results.get(i), b.length === 1)) retry.push(b) })
  // split batches that could not be judged as a whole, one expression per template
  const singles = retry.flat().map((w) => [w])
  if (singles.length) {
    report.count('batches_split', retry.length)
    const res2 = compileMany(singles.map((b, i) => toCase(b, i)))
    singles.forEach((b, i) => judgeBatch(b, res2.get(i), true))
  }
  report.count('environments', envs.length)
  report.count('expressions', items.length)
}
