// C06 — incremental update is sound: after every step of create(D0); update(D1); ... the node tree of the
// updated instance equals the tree of a fresh creation with the same data. No reference model: the runtime
// is compared with itself, observed through the same snapshot (real tree + last value written per channel).
import * as X from '../expr.mjs'
import * as M from '../tmodel.mjs'
import { genFileSet, makeData, printFileSet, DATA_NAMES } from '../gen.mjs'
import { compileMany, instantiate, allDiags, snap, LEVEL, withWarnings } from '../kit.mjs'
import { diffSnap, showSnap, evalGroups, DYN_SLOT_CHILD_SRC } from '../rt.mjs'
import { Rng } from '../prng.mjs'
import { genOp, applyOp, driveOp, showOp, pathTree } from '../mut.mjs'

export const rule = 'distinct = shape of the abstract template + sequence of mutation kinds; non-trivial = the fresh trees of D0 and Dn differ and >=1 protocol setter ran in update mode'
export const assumptions = [
  'both sides run the same generated code and runtime; only staleness can differ',
  'histories are driven through setData / spliceArrayDataOnPath (the real index.ts builds the update-path tree) and, for synthetic trees, through procGenWrapper.update(data, U) with U exact, coarsened or true',
]

const FIELDS = [...DATA_NAMES, 'list', 'arr', 'obj', 'ob', 'flag', 'n', 's']

function freshTree(ge, G, main, D, extra, propComponents, dynSlotChild) {
  const { comp, tr, error } = instantiate(ge, G, main, D, { keepEvents: false, templateExtra: extra, propComponents, dynSlotChild })
  if (error) return { error }
  return { tree: snap(ge, comp, tr, {}) }
}

/** Fire every event some binding of the tree names, on every element that has such a binding (document order), with the
 *  listener wrapper replaced by a recorder: returns which handlers ran, in order (function handlers by name). */
function firedHandlers(ge, comp, tr) {
  const pgw = comp._$tmplInst && comp._$tmplInst.procGenWrapper
  const list = []
  let n = 0
  if (!pgw) return { list, text: '', n }
  const prev = pgw.eventListenerWrapper
  let cur = null
  pgw.eventListenerWrapper = (caller, ev, f, path) => { cur.push((typeof f === 'function' ? 'fn:' + (f.name || '?') : String(f)) + (path ? '@' + JSON.stringify(path) : '')) }
  try {
    const visit = (node) => {
      if (node.childNodes === undefined) return
      const ch = tr.chan.get(node)
      if (ch && ch.v) {
        for (const ev of Object.keys(ch.v).sort()) {
          cur = []
          try { node.triggerEvent(ev, {}, { bubbles: false, capturePhase: true }) } catch (e) { cur.push('throws:' + String(e.message || e).slice(0, 60)) }
          n++
          list.push(`<${node.is || ''}> ${ev}: [${cur.join(', ')}]`) // (no node index: transparent virtual nodes may differ)
        }
      }
      node.childNodes.forEach(visit)
    }
    comp.getShadowRoot().childNodes.forEach(visit)
  } finally { pgw.eventListenerWrapper = prev }
  return { list, text: list.join('\n'), n }
}

/** Snapshot with the l-value paths removed from every channel (matcher of finding lvalue-path-stale-after-index-shift). */
export function maskPaths(nodes) {
  return nodes.map((n) => {
    if (n.k === 'text') return n
    const ch = {}
    for (const [k, v] of Object.entries(n.ch || {})) {
      if (k === 'r' || k === 'p' || k === 'l') { ch[k] = {}; for (const [name, arr] of Object.entries(v)) ch[k][name] = [arr[0]] }
      else if (k === 'v') { ch.v = {}; for (const [name, arr] of Object.entries(v)) ch.v[name] = arr.slice(0, 5) }
      else ch[k] = v
    }
    return { ...n, ch, children: n.children ? maskPaths(n.children) : undefined }
  })
}

export function runHistory(ctx, c, res) {
  const { ge, report } = ctx
  const viol = (s_, w) => report.violation(s_, { caseSeed: c.caseSeed, genOpts: c.genOpts || {}, files: c.sources, history: c.ops.map(showOp), ...w })
  if (!res || res.inconclusive) { report.inconc(res ? res.inconclusive : 'no result'); return }
  if (res.crash || (res.panics && res.panics.length)) { viol('compiler failed', { crash: res.crash, panics: res.panics }); return }
  if (allDiags(res).some((d) => d.level >= LEVEL.Error)) { report.count('rejected_by_sut'); return }
  let G
  try { G = evalGroups(res.groups) } catch (e) { viol('generated code does not evaluate: ' + e.message, {}); return }
  const extra = c.mode === 'virtualTree' ? { updateMode: 'virtualTree' } : {}
  const dataSeed = c.dataSeed
  const mk = () => makeData(new Rng(dataSeed), { small: true })
  const pc = (c.caseSeed & 1) === 1 // `<x-a>` is a real child component in every second case
  const dsc = ctx.dynSlotChild
  const live = instantiate(ge, G, c.fs.main, mk(), { keepEvents: false, templateExtra: extra, propComponents: pc, dynSlotChild: dsc })
  if (live.error) { report.count('creation_throws'); return }
  const shadow = mk() // pure copy on which the ops are applied to know D_i
  const first = freshTree(ge, G, c.fs.main, mk(), extra, pc, dsc)
  if (first.error) { report.count('creation_throws'); return }
  let prevTree = first.tree
  let changedOnce = false
  const before = { ...live.tr.counts }
  // a dynamic-slots child changes its slot values on its own, before the host was ever updated: the slot content is
  // re-run by closures of the host's creation pass. The instance must equal a fresh one whose child got that list from the host.
  if (!c.synthetic && ((c.caseSeed >>> 3) & 3) === 0) {
    const dnode = c.fs.files[c.fs.main].children.find((n) => n.t === 'el' && (n.tag === 'd-s' || n.tag === 'd-k'))
    const le = dnode && dnode.attrs[0] && dnode.attrs[0].value.parts[0].e
    const setAt = le && le.t === 'id' ? (D, v) => { D[le.name] = v; return true } : le && le.t === 'mem' && le.o.t === 'id' ? (D, v) => { if (!D[le.o.name] || typeof D[le.o.name] !== 'object') return false; D[le.o.name][le.name] = v; return true } : null
    let child = null
    const find = (n) => { if (child || n.childNodes === undefined) return; if (n.is === 'cmp/d-s' || n.is === 'cmp/d-k') { child = n; return } n.childNodes.forEach(find) }
    live.comp.getShadowRoot().childNodes.forEach(find)
    const L = child && child.data.list
    if (setAt && child && Array.isArray(L) && L.length && L.every((it) => it && typeof it === 'object')) {
      const Lp = [...L.map((it) => ({ ...it, v: String(it.v) + '!' })), { ...L[0], k: 'k-new', id: 'id-new', v: 'appended' }]
      const base = mk()
      if (setAt(base, Lp.map((it) => ({ ...it })))) {
        try { withWarnings(ge, live.tr, () => child.setData({ list: Lp })) } catch (e) {
          viol(`a dynamic-slots child changed its slot values before the first update of the host: ${String(e.message || e).slice(0, 200)}`, { step: 'child-first', error: String(e.stack || e).slice(0, 800) })
          return
        }
        const fresh = freshTree(ge, G, c.fs.main, base, extra, pc, dsc)
        report.evals()
        report.count('child_first_steps')
        if (fresh.error) { report.count('fresh_creation_throws'); return }
        const dropList = (nodes) => nodes.map((n) => (n.k !== 'el' ? n : { ...n, ch: n.tag === 'd-s' || n.tag === 'd-k' ? Object.fromEntries(Object.entries(n.ch || {}).filter(([k]) => k !== 'r')) : n.ch, children: dropList(n.children || []) }))
        // (other readers of the host field see the host's own value: only the content of the child is compared)
        const pick = (nodes) => { for (const n of nodes) { if (n.k === 'el' && (n.tag === 'd-s' || n.tag === 'd-k')) return [n]; const r = n.children && pick(n.children); if (r) return r } return null }
        const d = diffSnap(maskPaths(dropList(pick(snap(ge, live.comp, live.tr, {})) || [])), maskPaths(dropList(pick(fresh.tree) || [])))
        if (d) viol(`after a dynamic-slots child changed its slot values (before the first update of the host) the slot content is stale: ${d}`.slice(0, 500), { step: 'child-first', diff: d })
        // (the child now holds a list the host data does not describe: the history ends here)
        c.nontrivial = true
        return
      }
    }
  }
  for (let i = 0; i < c.ops.length; i++) {
    const o = c.ops[i]
    let drove
    try {
      if (c.synthetic) {
        const paths = applyOp(live.comp.data, o)
        const U = c.synthetic === 'true' ? true : pathTree(paths, c.synthetic === 'coarse' ? 1 : Infinity)
        withWarnings(ge, live.tr, () => live.comp._$tmplInst.procGenWrapper.update(live.comp.data, U))
        drove = true
      } else drove = withWarnings(ge, live.tr, () => driveOp(live.comp, o))
    } catch (e) {
      // (data the template cannot be created with either - e.g. a `data` expression of a template reference that
      //  now yields null - is a TypeError in any JavaScript, not a stale tree: the history ends here)
      const after = mk()
      for (let k = 0; k <= i; k++) applyOp(after, c.ops[k])
      if (freshTree(ge, G, c.fs.main, after, extra, pc, dsc).error) { report.count('update_and_fresh_creation_both_throw'); return }
      viol(`update step ${i} (${showOp(o)}) threw: ${String(e.message || e).slice(0, 200)}`, { step: i, error: String(e.stack || e).slice(0, 800) })
      return
    }
    if (!drove) continue
    if (!c.synthetic) applyOp(shadow, o)
    const Di = c.synthetic ? null : shadow
    // fresh creation with D_i (a structurally equal, unshared copy: re-apply the ops on a new base)
    const base = mk()
    for (let k = 0; k <= i; k++) applyOp(base, c.ops[k])
    const fresh = freshTree(ge, G, c.fs.main, base, extra, pc, dsc)
    report.evals()
    if (fresh.error) { report.count('fresh_creation_throws'); return }
    const got = snap(ge, live.comp, live.tr, {})
    let d = diffSnap(got, fresh.tree)
    if (d && !diffSnap(maskPaths(got), maskPaths(fresh.tree))) {
      // bug-compatible re-evaluation: identical once the l-value paths are ignored -> the recorded finding, nothing else
      report.knownHit('lvalue-path-stale-after-index-shift', 'model/event l-value path keeps the old list index after a splice or reorder shifted an unchanged item (value itself is current)')
      d = null
    }
    if (d) {
      viol(`after step ${i} (${showOp(o)}) the updated tree is stale: ${d}`.slice(0, 500), { step: i, mode: c.mode, synthetic: c.synthetic || null, updated: showSnap(got).slice(0, 3000), fresh: showSnap(fresh.tree).slice(0, 3000), diff: d })
      c.failed = true
      return
    }
    if (diffSnap(prevTree, fresh.tree)) changedOnce = true
    prevTree = fresh.tree
    // what the attached listeners really are: at the end of the history every bound event is fired on the updated
    // instance and on a fresh one; the handlers that run (in order) must be the same
    if (i === c.ops.length - 1 && !c.synthetic) {
      const base2 = mk()
      for (let k = 0; k <= i; k++) applyOp(base2, c.ops[k])
      const f2 = instantiate(ge, G, c.fs.main, base2, { keepEvents: false, templateExtra: extra, propComponents: pc, dynSlotChild: dsc })
      if (!f2.error) {
        const a = firedHandlers(ge, live.comp, live.tr)
        const b = firedHandlers(ge, f2.comp, f2.tr)
        report.count('events_fired', a.n)
        // (the host's own child order may differ from a fresh creation where dynamic-slot content is involved, with every
        //  slot holding the right content - section 8: the entries are compared as a multiset, each with its handlers in order)
        a.list.sort(); b.list.sort()
        if (a.list.join('\n') !== b.list.join('\n')) {
          let k = 0
          while (k < a.list.length && a.list[k] === b.list[k]) k++
          viol(`after the history the listeners attached to an element differ from a fresh creation: ${a.list[k]} vs ${b.list[k]}`.slice(0, 500), { step: i, updated: a.list.slice(Math.max(0, k - 2), k + 3), fresh: b.list.slice(Math.max(0, k - 2), k + 3) })
          c.failed = true
          return
        }
      }
    }
  }
  let setters = 0
  for (const [k, v] of Object.entries(live.tr.counts)) if (k.startsWith('R.') || k === 'T') { setters += v - (before[k] || 0); report.cell('update_mode_events', k, 'n', v - (before[k] || 0)) }
  c.nontrivial = changedOnce && setters > 0
}

/** Data fields read by structural expressions (wx:for lists, wx:if conditions, template data, slot names):
 *  mutations are biased towards them, because their update-path trees are handed on to sub-structures. */
function structuralRoots(fs_) {
  const roots = new Set()
  const visit = (nodes) => {
    for (const n of nodes) {
      if (['for', 'if', 'tref', 'slot'].includes(n.t)) for (const v of M.nodeValues(n)) for (const e of M.valueExprs(v)) X.walk(e, (x) => { if (x.t === 'id') roots.add(x.name) })
      for (const l of M.childLists(n)) visit(l)
    }
  }
  for (const f of Object.values(fs_.files)) { visit(f.children || []); for (const d of f.defs || []) visit(d.children || []) }
  return [...roots]
}

/** Focus nodes: structures whose list / condition / template data is a computed expression with side
 *  dependencies, and whose body shows item fields, so that a lost or mis-shaped sub-tree is visible. */
function focusNodes(r, fs_) {
  const items = X.mem(X.id('obj'), 'items')
  const side = [
    () => X.bin('&&', X.id('obj'), items),
    () => X.bin('||', items, X.id('list')),
    () => X.cond(X.id('flag'), items, X.id('list')),
    () => X.idx(X.id('obj'), X.str('items')),
    () => X.bin('??', X.mem(X.id('ob'), 'zz'), items),
    () => X.bin('||', X.bin('&&', X.id('flag'), X.id('list')), items),
    () => items,
    () => X.id('list'),
    // an object is iterated: items are addressed by key, positions shift when keys come and go
    () => X.id('obj'),
    () => X.bin('||', X.id('ob'), X.id('obj')),
    () => X.mem(X.id('obj'), 'x'),
  ]
  const it = (f) => X.mem(X.id('item'), f)
  const body = () => ({ t: 'el', tag: 'q', attrs: [{ fam: 'plain', name: 'v', value: M.ev(it('v')) }, { fam: 'data:', name: 'x', value: M.ev(it('x')) }], children: [{ t: 'text', v: M.mv('#', it('id'), ':', X.id('index'), ':', X.id(r.pick(['a', 'flag', 's'])), ':', X.idx(it('sub'), X.num('1'))) }] })
  const out = []
  // a `slot` binding that becomes undefined (and a string again): the element then has no slot, as after a fresh creation
  if (r.bool(0.25)) {
    const c = () => X.id(r.pick(['a', 'b', 'flag', 's']))
    const v = r.pick([() => X.cond(c(), X.str('s1'), X.kw('undefined')), () => X.cond(c(), X.kw('undefined'), X.id('s')), () => X.mem(X.id('ob'), r.pick(['zz', 'a'])), () => X.bin('||', X.bin('&&', c(), X.str('s2')), X.kw('undefined'))])()
    const el = { t: 'el', tag: r.pick(['q', 'x-a', 'text']), attrs: [{ fam: 'slot', name: 'slot', value: M.ev(v) }], children: [] }
    out.push(r.bool(0.3) ? { t: 'el', tag: 'x-a', attrs: [], children: [el] } : el)
  }
  // several bindings of one event on one element (different phases / kinds, legacy spellings, and the same binding
  // twice - legal, see parse::tag::test::event_listener): each keeps its own listener through updates
  if (r.bool(0.3)) {
    const f = () => X.id(r.pick(['a', 'b', 'flag', 's']))
    const h = () => r.pick([() => M.ev(X.id('fn')), () => M.ev(X.cond(f(), X.str('onTap'), X.str('handler'))), () => M.mv('', X.cond(f(), X.str('onTap'), X.str('h'))), () => M.ev(X.cond(f(), X.id('fn'), X.str('h'))), () => M.sv('handler')])()
    const kinds = [['bind', 'tap'], ['bind', 'tap'], ['plain', 'ontap'], ['plain', 'bindtap'], ['capture-bind', 'tap'], ['catch', 'tap'], ['mut-bind', 'tap'], ['catch', 'tap']]
    const attrs = []
    for (let k = r.range(2, 4); k > 0; k--) { const [fam, name] = r.pick(kinds); attrs.push({ fam, name, value: h() }) }
    out.push({ t: 'el', tag: r.pick(['q', 'x-a']), attrs, children: [] })
  }
  if (r.bool(0.4)) out.push({ t: 'el', tag: 'q', attrs: [{ fam: 'plain', name: 'n', value: M.ev(X.mem(X.id('list'), 'length')) }, { fam: 'data:', name: 'foo', value: M.ev(X.mem(X.idx(X.id('list'), X.num('1')), 'v')) }, { fam: 'plain', name: 'once', value: M.ev(X.mem(X.idx(X.obj([{ k: 'spread', e: X.id('list') }]), X.num('0')), 'v')) }, { fam: 'mark', name: 'x1', value: M.ev(X.idx(X.obj([{ k: 'kv', name: 'x', e: X.num('1') }, { k: 'spread', e: X.id('arr') }]), X.num('1'))) }], children: [{ t: 'text', v: M.mv('', X.mem(X.idx(X.arr([{ k: 'spread', e: X.id('list') }]), X.num('0')), 'id'), '/', X.mem(X.obj([{ k: 'spread', e: X.id('arr') }]), 'length'), '/', X.mem(X.id('arr'), 'length'), '/', X.mem(X.idx(X.obj([{ k: 'spread', e: X.id('list') }]), X.num('0')), 'v'), '/', X.idx(X.obj([{ k: 'kv', name: 'x', e: X.num('1') }, { k: 'spread', e: X.id('arr') }]), X.num('1'))) }] })
  const k = r.range(1, 2)
  for (let i = 0; i < k; i++) {
    const kind = r.int(10)
    if (kind < 6) {
      let node = body()
      if (r.bool(0.3)) node = { t: 'for', list: M.ev(X.bin('||', it('sub'), X.id('arr'))), item: 'x', index: 'j', key: undefined, cond: null, node: { t: 'el', tag: 'r', attrs: [{ fam: 'plain', name: 'v', value: M.mv('', X.id('x'), '/', X.id('j'), '/', it('v')) }], children: [] } }
      out.push({ t: 'for', list: M.ev(r.pick(side)()), item: undefined, index: undefined, key: r.pick([undefined, undefined, 'k', 'id']), cond: r.bool(0.2) ? M.ev(X.bin('||', it('v'), X.id('flag'))) : null, node })
    } else if (kind < 8) {
      out.push({ t: 'if', branches: [{ cond: M.ev(X.bin('&&', X.id('obj'), X.mem(X.mem(X.id('obj'), 'items'), 'length'))), node: { t: 'el', tag: 'q', attrs: [{ fam: 'plain', name: 'v', value: M.ev(X.mem(X.idx(items, X.num('0')), 'v')) }], children: [] } }], els: { t: 'el', tag: 'q', attrs: [{ fam: 'plain', name: 'w', value: M.ev(X.mem(X.id('obj'), 'y')) }], children: [] } })
    } else if (kind < 9) {
      // content of a dynamic-slots child: a wx:if chain (or a template reference) directly below the component tag,
      // next to an element that receives the slot values; the child renders the content once per list item
      const kids = []
      if (r.bool(0.7)) kids.push({ t: 'if', branches: [{ cond: M.ev(X.id(r.pick(['flag', 'a', 'n']))), node: { t: 'block', children: [{ t: 'el', tag: 'q', attrs: [], children: [{ t: 'text', v: M.mv('yes', X.id('a')) }] }] } }], els: r.bool(0.4) ? { t: 'block', children: [{ t: 'el', tag: 'q', attrs: [], children: [{ t: 'text', v: M.mv('no', X.id('s')) }] }] } : null })
      // text directly in the slot content (no element around it)
      if (r.bool(0.5)) kids.push({ t: 'text', v: M.mv('t:', X.id(r.pick(['a', 's', 'flag']))) })
      const defs = (fs_.files[fs_.main].defs || []).map((d) => d.name)
      const receives = r.bool(0.7)
      const inner = [{ t: 'text', v: M.mv('', X.id('v'), '-', X.id('i'), '-', X.id(r.pick(['a', 's', 'flag']))) }]
      // a list and template data that derive from a slot value: their update trees come from the slot value's own tree
      if (receives && r.bool(0.35)) inner.push({ t: 'for', list: M.ev(X.bin('||', X.id('v'), X.id('s'))), item: 'ch', index: 'ci', key: undefined, cond: null, node: { t: 'el', tag: 'r', attrs: [{ fam: 'plain', name: 'v', value: M.mv('', X.id('ch'), ':', X.id('ci')) }], children: [] } })
      if (receives && defs.length && r.bool(0.3)) inner.push({ t: 'tref', is: M.sv(r.pick(defs)), data: X.obj([{ k: 'kv', name: 'a', e: X.id('v') }, { k: 'kv', name: 'b', e: X.id('i') }]) })
      kids.push({ t: 'el', tag: 'q', attrs: [{ fam: 'plain', name: 'w', value: M.ev(X.id('v')) }], slotVals: receives ? [{ name: 'v' }, { name: 'i' }] : [], children: inner })
      if (defs.length && r.bool(0.3)) kids.push({ t: 'tref', is: M.sv(r.pick(defs)), data: X.obj([{ k: 'kv', name: 'a', e: X.id('a') }]) })
      out.push({ t: 'el', tag: r.pick(['d-s', 'd-k']), attrs: [{ fam: 'plain', name: 'list', value: M.ev(r.pick([() => X.id('list'), () => items, () => X.bin('||', items, X.id('list'))])()) }], children: r.shuffle(kids) })
    } else if (r.bool(0.5)) {
      // a `slot:` value reference on content of an element that is not a dynamic-slots component at run time (a
      // single-slot component or a native node): no value is ever supplied, and updates must still go through
      out.push({ t: 'el', tag: r.pick(['x-a', 'view']), attrs: [], children: [{ t: 'el', tag: 'q', attrs: [{ fam: 'plain', name: 'w', value: M.ev(X.id(r.pick(['a', 's', 'flag']))) }], slotVals: [{ name: 'v' }], children: [{ t: 'text', v: M.mv('', X.id(r.pick(['a', 's', 'flag'])), '-', X.id('v')) }] }, { t: 'el', tag: 'q', attrs: [{ fam: 'plain', name: 'after', value: M.ev(X.id(r.pick(['a', 's', 'n']))) }], children: [] }] })
    } else {
      const defs = (fs_.files[fs_.main].defs || []).map((d) => d.name)
      if (defs.length) out.push({ t: 'tref', is: M.sv(r.pick(defs)), data: X.obj([{ k: 'kv', name: 'a', e: X.bin('&&', X.id('obj'), X.mem(X.id('obj'), 'y')) }, { k: 'kv', name: 'b', e: X.idx(items, X.num('0')) }, { k: 'spread', e: X.bin('||', X.id('ob'), X.obj([])) }]) })
    }
  }
  return out
}

export function makeCases(ctx, n, fixed = null) {
  const { rng, report } = ctx
  const cases = []
  let attempts = 0
  while (cases.length < n && attempts++ < n * 4) {
    const caseSeed = fixed ? fixed[attempts - 1] : rng.u32()
    if (caseSeed === undefined) break
    const r = new Rng(caseSeed)
    const genOpts = { allowSlot: false, noCall: false, safeLists: true }
    const fs_ = genFileSet(r, genOpts)
    const focus = r.bool(0.3)
    if (focus) { const main = fs_.files[fs_.main]; main.children = [...main.children, ...focusNodes(r, fs_)] }
    const st = { rng: r, spacing: false, layout: false, between: true }
    let sources
    try { sources = printFileSet(fs_, st) } catch (e) { if (/adjacent text/.test(e.message)) continue; throw e }
    const dataSeed = r.u32()
    // the ops are drawn against the evolving pure data so that indices and paths exist
    const D = makeData(new Rng(dataSeed), { small: true, richObj: true })
    const prefer = structuralRoots(fs_).filter((f) => FIELDS.includes(f))
    const nOps = r.range(1, 6)
    const ops = []
    for (let i = 0; i < nOps; i++) { const o = genOp(r, D, FIELDS, undefined, prefer); ops.push(o); applyOp(D, o) }
    const mode = r.bool(0.5) ? 'virtualTree' : 'default'
    // a key can only be removed with an exact tree when the tree is handed over directly
    // (dynamic-slot content is created and removed by the child's own update cycle: only real setData histories there)
    const hasDynSlots = focus && fs_.files[fs_.main].children.some((n) => n.t === 'el' && (n.tag === 'd-s' || n.tag === 'd-k'))
    const synthetic = hasDynSlots ? null : ops.some((o) => o.op === 'key') ? r.pick(['exact', 'exact', 'coarse', null]) : r.bool(0.25) ? r.pick(['exact', 'coarse', 'true']) : null
    cases.push({ id: cases.length, caseSeed, genOpts, fs: fs_, sources, dataSeed, ops, mode, synthetic })
  }
  return cases
}

/** The witness of every recorded finding is re-run on each invocation (shard 0), so the KNOWN-FINDING line
 *  is printed whenever the finding still reproduces, and STALE-FINDING is noted when it no longer does. */
function runFindingWitnesses(ctx) {
  const { ge, report } = ctx
  const src = '<x wx:for="{{arr}}" wx:key="*this" model:title="{{item}}"/>'
  const res = compileMany([{ id: 0, files: [['p', src]], scripts: [] }]).get(0)
  const mk = () => ({ arr: ['a', 'b', 'c'] })
  const live = instantiate(ge, res.groups, 'p', mk(), { keepEvents: false })
  live.comp.spliceArrayDataOnPath(['arr'], 1, 1, [])
  live.comp.applyDataUpdates()
  const fresh = instantiate(ge, res.groups, 'p', { arr: ['a', 'c'] }, { keepEvents: false })
  const a = snap(ge, live.comp, live.tr, {})
  const b = snap(ge, fresh.comp, fresh.tr, {})
  const d = diffSnap(a, b)
  if (d && !diffSnap(maskPaths(a), maskPaths(b))) report.knownHit('lvalue-path-stale-after-index-shift', 'model/event l-value path keeps the old list index after a splice or reorder shifted an unchanged item (value itself is current)')
  else if (!d) report.notes.push('STALE-FINDING lvalue-path-stale-after-index-shift: the recorded witness no longer reproduces')
  else report.violation('the witness of finding lvalue-path-stale-after-index-shift now fails differently: ' + d, { files: [['p', src]], diff: d })
}

function compileDynSlotChild(ctx) {
  const res = compileMany([{ id: 'child', files: [['child', DYN_SLOT_CHILD_SRC]], scripts: [] }]).get('child')
  ctx.dynSlotChild = evalGroups(res.groups)
}

export async function run(ctx) {
  X.sameOptions.signedZero = false // an updated instance is compared with a fresh one: the runtime's change detection is `!==`
  const { report, tier } = ctx
  compileDynSlotChild(ctx)
  if (ctx.shard === 0) runFindingWitnesses(ctx)
  const N = tier === 'thorough' ? 12000 : 1000
  const cases = makeCases(ctx, N)
  const BATCH = 300
  for (let i = 0; i < cases.length; i += BATCH) {
    const batch = cases.slice(i, i + BATCH)
    const results = compileMany(batch.map((c) => ({ id: c.id, files: c.sources, scripts: Object.entries(c.fs.scripts) })))
    for (const c of batch) {
      runHistory(ctx, c, results.get(c.id))
      report.cell('modes', c.mode, c.synthetic || 'natural')
      for (const o of c.ops) report.cell('mutations', o.op, o.kind || (o.retype ? 'retype' : o.path ? 'depth' + o.path.length : ''))
      if (c.nontrivial) report.shape(M.shapeOfNodes(c.fs.files[c.fs.main].children) + '|' + c.ops.map((o) => o.op + (o.kind || '')).join(','))
      report.sample({ files: c.sources, history: c.ops.map(showOp), mode: c.mode, synthetic: c.synthetic }, 3)
    }
  }
  report.count('histories', cases.length)
}

export async function replay(ctx) {
  X.sameOptions.signedZero = false
  compileDynSlotChild(ctx)
  const w = ctx.replay.witness
  const cases = makeCases(ctx, 1, [w.caseSeed])
  for (const c of cases) {
    const results = compileMany([{ id: c.id, files: c.sources, scripts: Object.entries(c.fs.scripts) }])
    runHistory(ctx, c, results.get(c.id))
  }
}
