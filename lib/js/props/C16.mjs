// C16 — recorded source positions point at the text they describe.
// Events: every location stored in the public AST (gev ast) and the source map of Stringifier::finish.
// Oracle: slice(source, loc) relates to the node as its kind demands (equals the spelling / decodes to the
// value / parses to the number); children nest inside parents, siblings are ordered; source-map entries have
// non-decreasing output positions, point at the printed token, and start at a recorded construct start.
import fs from 'node:fs'
import path from 'node:path'
import * as X from '../expr.mjs'
import * as M from '../tmodel.mjs'
import { genFileSet, printFileSet } from '../gen.mjs'
import { gevBatch } from '../gev.mjs'
import { compileMany } from '../kit.mjs'
import { VERIF } from '../rt.mjs'
import { Rng } from '../prng.mjs'

export const needsRuntime = false
export const rule = 'distinct = node kind x relation x (line-break style, non-ASCII before the node); non-trivial = at least one non-ASCII character or line break precedes the located node'
export const assumptions = [
  'lines are separated by LF only (a CR is an ordinary character of its line), columns are UTF-16 code units: the conventions of the diagnostics API',
  'entity decoding on the monitor side uses Python\'s html5 table; string-literal decoding implements the escapes the expression grammar documents',
]

const ENT = JSON.parse(fs.readFileSync(path.join(VERIF, 'lib/js/data/html5_entities.json'), 'utf8'))

function decodeEntities(s) {
  return s.replace(/&(#x[0-9a-fA-F]+|#[0-9]+|[A-Za-z][A-Za-z0-9]*);/g, (all, body) => {
    if (body[0] === '#') {
      const cp = body[1] === 'x' ? parseInt(body.slice(2), 16) : parseInt(body.slice(1), 10)
      if (cp > 0x10ffff || (cp >= 0xd800 && cp <= 0xdfff)) return all
      return String.fromCodePoint(cp)
    }
    return Object.prototype.hasOwnProperty.call(ENT, body) ? ENT[body] : all
  })
}
function decodeStrLit(s) {
  if (s.length < 2 || (s[0] !== '"' && s[0] !== "'") || s[s.length - 1] !== s[0]) return null
  let out = ''
  const body = s.slice(1, -1)
  for (let i = 0; i < body.length; i++) {
    const c = body[i]
    if (c !== '\\') { out += c; continue }
    const n = body[++i]
    if (n === undefined) return null
    const simple = { r: '\r', n: '\n', t: '\t', b: '\b', f: '\f', v: '\v' }
    if (n in simple) out += simple[n]
    else if (/[0-7]/.test(n)) { const m = /^(?:[0-3][0-7]{0,2}|[4-7][0-7]?)/.exec(body.slice(i))[0]; out += String.fromCharCode(parseInt(m, 8)); i += m.length - 1 } // legacy octal escape
    else if (n === '\n' || n === '\u2028' || n === '\u2029') continue // line continuation
    else if (n === '\r') { if (body[i + 1] === '\n') i++; continue }
    else if (n === 'x') { out += String.fromCharCode(parseInt(body.substr(i + 1, 2), 16)); i += 2 } else if (n === 'u' && body[i + 1] === '{') { const j = body.indexOf('}', i); out += String.fromCodePoint(parseInt(body.slice(i + 2, j), 16)); i = j } else if (n === 'u') { out += String.fromCharCode(parseInt(body.substr(i + 1, 4), 16)); i += 4 } else out += n
  }
  return out
}

class Src {
  constructor(text) { this.text = text; this.lines = text.split('\n') }
  valid(l, c) { return l >= 0 && l < this.lines.length && c >= 0 && c <= this.lines[l].length }
  slice(loc) {
    const [sl, sc, el, ec] = loc
    if (!this.valid(sl, sc) || !this.valid(el, ec)) return null
    if (sl > el || (sl === el && sc > ec)) return null
    if (sl === el) return this.lines[sl].slice(sc, ec)
    return [this.lines[sl].slice(sc), ...this.lines.slice(sl + 1, el), this.lines[el].slice(0, ec)].join('\n')
  }
  before(loc) { return this.lines.slice(0, loc[0]).join('\n') + '\n' + this.lines[loc[0]].slice(0, loc[1]) }
}
const cmp = (a, b) => (a[0] - b[0]) || (a[1] - b[1])
const within = (inner, outer) => cmp([inner[0], inner[1]], [outer[0], outer[1]]) >= 0 && cmp([inner[2], inner[3]], [outer[2], outer[3]]) <= 0

function checkFile(ctx, c, p, text, ast, smapRes) {
  const { report } = ctx
  const src = new Src(text)
  const starts = new Set()
  const viol = (msg, w) => { if (!c.failed || c.failed < 5) report.violation(msg, { caseSeed: c.caseSeed, path: p, source: text.length > 3000 ? text.slice(0, 3000) + '…' : text, ...w }); c.failed = (c.failed || 0) + 1 }
  const noteStart = (loc) => { if (loc) starts.add(loc[0] + ':' + loc[1]) }
  const nonTrivial = (loc) => /[^\x00-\x7f]|\n/.test(src.before(loc))
  const leaf = (it, relation, ok, detail) => {
    report.evals()
    report.cell('relation_x_style', relation, c.style)
    if (nonTrivial(it.loc)) report.shape(it.k + '|' + relation + '|' + c.style + '|L' + Math.min(it.loc[0], 6) + '|' + (/[\ud800-\udbff]/.test(src.lines[it.loc[0]].slice(0, it.loc[1])) ? 'astral-before' : 'bmp') + '|' + (it.loc[0] !== it.loc[2] ? 'multi-line' : 'one-line'))
    if (!ok) viol(`${it.k} (${relation}): location ${JSON.stringify(it.loc)} spans ${JSON.stringify(src.slice(it.loc))}, ${detail}`, { item: { k: it.k, loc: it.loc, name: it.name, value: it.value } })
  }
  const scopeStack = []
  const visitExpr = (e, parentLoc) => {
    if (!e || !e.k) return
    if (e.loc) noteStart(e.loc)
    const s = e.loc ? src.slice(e.loc) : null
    if (e.loc && s === null) { viol(`${e.k}: location ${JSON.stringify(e.loc)} is not inside the source`, {}); return }
    if (e.loc && parentLoc && !e.synthetic && !within(e.loc, parentLoc)) viol(`${e.k} at ${JSON.stringify(e.loc)} is not nested inside its parent ${JSON.stringify(parentLoc)}`, { slice: s })
    switch (e.k) {
      case 'data_field': leaf(e, 'slice == name', s === e.name, `the identifier is ${JSON.stringify(e.name)}`); break
      case 'scope_ref': leaf(e, 'slice == scope name', s === scopeStack[e.index], `scope #${e.index} is named ${JSON.stringify(scopeStack[e.index])}`); break
      case 'member_name': case 'obj_key': leaf(e, 'slice == name', s === e.name, `the name is ${JSON.stringify(e.name)}`); break
      case 'keyword': case 'op': leaf(e, 'slice == spelling', s === e.text, `expected ${JSON.stringify(e.text)}`); break
      case 'bracket': leaf(e, 'slice == bracket', s === e.text || (s === '' && (e.text === '{' || e.text === '}')), `expected ${JSON.stringify(e.text)}`); break
      case 'lit_str': leaf(e, 'decode(slice) == value', parentIsMixed(e) ? decodeEntities(s) === e.value : decodeStrLit(s) === e.value, `the value is ${JSON.stringify(e.value)}`); break
      case 'lit_num': {
        let v
        try { v = X.numValue(s.trim()) } catch { v = NaN }
        const want = typeof e.value === 'string' ? Number(e.value.replace('inf', 'Infinity')) : e.value
        leaf(e, 'parse(slice) == value', /^[0-9.]/.test(s) && Object.is(v, want), `the value is ${e.value}`)
        break
      }
      default: break
    }
    const kids = [...(e.children || [])]
    // computed locations of compound nodes: children must nest and be ordered
    let prev = null
    for (const k of kids) {
      visitExpr(k, e.computed && !e.synthetic ? e.loc : null)
      if (k.loc && prev && cmp([prev[2], prev[3]], [k.loc[0], k.loc[1]]) > 0 && !e.synthetic_chain) viol(`siblings out of source order inside ${e.k}: ${JSON.stringify(prev)} then ${JSON.stringify(k.loc)}`, {})
      if (k.loc && !(k.k === 'bracket' && k.loc[0] === k.loc[2] && k.loc[1] === k.loc[3])) prev = k.loc
    }
    if (e.operand) visitExpr(e.operand, null)
  }
  let mixedDepth = 0
  const parentIsMixed = () => mixedDepth > 0
  // the concatenation built by the parser for mixed text always contains a to_string wrapper on its spine
  const chainKind = (e) => {
    if (!e) return null
    if (e.k === 'to_string') return true
    if (e.k === 'lit_str') return false
    if (e.k === 'binary' && e.op === '+') {
      const l = chainKind(e.children[0])
      if (l === null) return null
      if (e.children[2].k === 'to_string') return true
      if (e.children[2].k === 'lit_str') return l
    }
    return null
  }
  const isMixedChain = (e) => chainKind(e) === true
  const visitMixed = (e) => {
    // the concatenation the parser builds for mixed text: only its leaves have source text
    noteStart(e.loc)
    if (e.k === 'binary') { noteStart(e.children[1].loc); visitMixed(e.children[0]); visitMixed(e.children[2]) } else if (e.k === 'to_string') visitExpr(e.operand, null)
    else if (e.k === 'lit_str') { mixedDepth++; visitExpr(e, null); mixedDepth-- } else visitExpr(e, null)
  }
  const visitValue = (v, containerLoc, what) => {
    if (!v || !v.k) return
    if (v.k === 'static_value') {
      noteStart(v.loc)
      const s = src.slice(v.loc)
      if (s === null) { viol(`static value: location ${JSON.stringify(v.loc)} is not inside the source`, {}); return }
      if (containerLoc && !within(v.loc, containerLoc)) viol(`static value of ${what} at ${JSON.stringify(v.loc)} lies outside its element ${JSON.stringify(containerLoc)}`, {})
      leaf(v, 'decode(slice) == value', decodeEntities(s) === v.value, `the decoded value is ${JSON.stringify(v.value)}`)
    } else if (v.k === 'dynamic_value') {
      const [l, e, r] = v.children
      if (isMixedChain(e)) {
        visitMixed(e); noteStart(l.loc); noteStart(r.loc)
        report.evals()
        const rs = src.slice(r.loc)
        if (rs === null || !rs.startsWith('}}') || src.slice(l.loc) !== '{{') viol(`braces of a mixed value: ${JSON.stringify(src.slice(l.loc))} … ${JSON.stringify(rs)}`, {})
      } else {
        noteStart(v.loc)
        if (containerLoc && !within(v.loc, containerLoc)) viol(`binding of ${what} at ${JSON.stringify(v.loc)} lies outside its element ${JSON.stringify(containerLoc)}`, {})
        visitExpr(l, v.loc); visitExpr(e, v.loc); visitExpr(r, v.loc)
        if (e.loc && l.loc && r.loc && !(cmp([l.loc[2], l.loc[3]], [e.loc[0], e.loc[1]]) <= 0 && cmp([e.loc[2], e.loc[3]], [r.loc[0], r.loc[1]]) <= 0)) viol(`expression ${JSON.stringify(e.loc)} is not between its braces ${JSON.stringify(l.loc)} … ${JSON.stringify(r.loc)}`, {})
      }
    }
  }
  const camel = M.dashToCamel
  const visitAttr = (a, startTagLoc) => {
    for (const ch of a.children) {
      if (ch.k === 'attr_prefix') { noteStart(ch.loc); const s = src.slice(ch.loc); report.evals(); if (s === null || (s !== '' && !/^[a-z-]+$/.test(s))) viol(`attribute prefix location ${JSON.stringify(ch.loc)} spans ${JSON.stringify(s)}`, {}); else if (!within(ch.loc, startTagLoc)) viol(`attribute prefix at ${JSON.stringify(ch.loc)} lies outside the start tag ${JSON.stringify(startTagLoc)}`, {}) } else if (ch.k === 'attr_name') {
        noteStart(ch.loc)
        const s = src.slice(ch.loc)
        let ok
        const fam = ch.fam
        if (s === null) ok = false
        else if (fam === 'data') ok = s === ch.name || camel(s.replace(/^data-/, '').toLowerCase()) === ch.name
        else if (fam === 'model' || fam === 'change' || fam === 'worklet' || fam === 'slot-value' || fam === 'slot-attr') ok = camel(s) === ch.name
        else ok = s === ch.name
        leaf(ch, 'normalise(slice) == name', ok, `the ${fam} name is ${JSON.stringify(ch.name)}`)
        if (s !== null && !within(ch.loc, startTagLoc)) viol(`attribute name at ${JSON.stringify(ch.loc)} lies outside the start tag ${JSON.stringify(startTagLoc)}`, {})
      } else if (ch.k === 'attr_name_span') {
        noteStart(ch.loc)
        const s = src.slice(ch.loc)
        report.evals()
        const want = { 'wx:for': 'wx:for', 'wx:if': /^wx:(if|elif)$/, class: 'class', style: 'style', id: 'id', slot: 'slot', is: 'is', data: 'data', name: 'name', src: 'src' }[ch.fam]
        const empty = s === ''
        if (s === null || !(empty || (want instanceof RegExp ? want.test(s) : s === want))) viol(`${ch.fam} attribute location ${JSON.stringify(ch.loc)} spans ${JSON.stringify(s)}`, {})
      } else if (ch.k === 'static_attr_value') {
        noteStart(ch.loc)
        const s = src.slice(ch.loc)
        let dec = s === null ? null : decodeEntities(s)
        if (ch.fam === 'src' && dec !== null) dec = dec.replace(/\.(wxml|wxs)$/, '')
        const defaulted = s !== null && dec !== ch.value && (a.fam === 'slot-value') && camel(s) === ch.value // `slot:a` without value: the name doubles as the scope name
        leaf(ch, 'decode(slice) == value', dec === ch.value || defaulted, `the value is ${JSON.stringify(ch.value)}`)
      } else visitValue(ch, startTagLoc, a.fam)
    }
  }
  const startTagLocOf = (tl) => [tl.start_open[0], tl.start_open[1], tl.start_close[2], tl.start_close[3]]
  const checkTagLocation = (tl, kind) => {
    report.evals()
    for (const [key, want] of [['start_open', '<'], ['start_close', '>']]) {
      noteStart(tl[key])
      const s = src.slice(tl[key])
      if (s !== want && !(s === '' && key === 'start_close')) viol(`tag ${key} location ${JSON.stringify(tl[key])} spans ${JSON.stringify(s)}`, { kind })
    }
    noteStart(tl.close)
    const sc = src.slice(tl.close)
    if (sc !== '/' && sc !== '>' && sc !== '') viol(`tag close location ${JSON.stringify(tl.close)} spans ${JSON.stringify(sc)}`, { kind })
    if (tl.end) {
      noteStart(tl.end[0]); noteStart(tl.end[1])
      if (src.slice(tl.end[0]) !== '<') viol(`end tag open location ${JSON.stringify(tl.end[0])} spans ${JSON.stringify(src.slice(tl.end[0]))}`, { kind })
      const e1 = src.slice(tl.end[1])
      if (e1 === null || !/>$/.test(e1)) viol(`end tag close location ${JSON.stringify(tl.end[1])} spans ${JSON.stringify(e1)}`, { kind })
    }
  }
  const visitNodes = (list, parentLoc) => {
    let prev = null
    for (const n of list) {
      if (n.loc && prev && cmp([prev[2], prev[3]], [n.loc[0], n.loc[1]]) > 0) viol(`sibling nodes out of source order: ${JSON.stringify(prev)} then ${JSON.stringify(n.loc)}`, {})
      if (n.loc) prev = n.loc
      if (n.loc && parentLoc && !within(n.loc, parentLoc) && n.k !== 'dynamic_value') viol(`${n.k} at ${JSON.stringify(n.loc)} is not nested inside its parent ${JSON.stringify(parentLoc)}`, {})
      visitNode(n)
    }
  }
  const visitNode = (n) => {
    if (n.k === 'static_value' || n.k === 'dynamic_value') { visitValue(n, null, 'text'); return }
    if (n.k === 'comment') { noteStart(n.loc); report.evals(); const s = src.slice(n.loc); if (s === null || !s.startsWith('<!--')) viol(`comment location ${JSON.stringify(n.loc)} spans ${JSON.stringify(s)}`, {}); return }
    if (n.k !== 'element') return
    noteStart(n.loc)
    checkTagLocation(n.tag_location, n.kind)
    const stl = startTagLocOf(n.tag_location)
    const pushed = []
    // scopes introduced by slot values come first, then (for wx:for) item and index for the children
    for (const a of n.attrs) if (a.fam === 'slot-value') pushed.push(a.children.find((x) => x.k === 'static_attr_value').value)
    if (n.kind !== 'if' && n.kind !== 'for') scopeStack.push(...pushed)
    for (const a of n.attrs) {
      if (a.k === 'tag_name') { noteStart(a.loc); leaf(a, 'slice == name', src.slice(a.loc) === a.name, `the tag is ${JSON.stringify(a.name)}`); if (!within(a.loc, stl)) viol('tag name outside its start tag', {}) } else if (n.kind === 'if' || n.kind === 'for') visitAttr(a, n.loc) // wrappers borrow the wrapped element's tag location
      else visitAttr(a, stl)
    }
    if (n.kind === 'for') {
      noteStart(n.key.name_loc); noteStart(n.key.value_loc)
      for (const key of ['item', 'index']) { const x = n[key]; report.evals(); noteStart(x.value_loc); noteStart(x.name_loc); const s = src.slice(x.value_loc); if (s !== x.value && !(s === 'wx:for' || s === '')) viol(`wx:for-${key} scope name location ${JSON.stringify(x.value_loc)} spans ${JSON.stringify(s)} but the name is ${JSON.stringify(x.value)}`, {}) }
      scopeStack.push(n.item.value, n.index.value)
      visitNodes(n.children, null)
      scopeStack.length -= 2
    } else if (n.kind === 'if') {
      // the branches of a chain are siblings too: each one starts after the previous one ended
      let prevBranchEnd = null
      for (const b of n.children) {
        if (b.cond) visitAttr(b.cond, n.loc)
        if (b.else_loc) noteStart(b.else_loc)
        const locs = b.children.map((x) => x.loc).filter(Boolean)
        report.evals()
        if (locs.length && prevBranchEnd && cmp(prevBranchEnd, [locs[0][0], locs[0][1]]) > 0) viol(`branches of a wx:if chain out of source order: a branch ending at ${JSON.stringify(prevBranchEnd)} precedes one starting at ${JSON.stringify(locs[0])}`, {})
        if (locs.length) prevBranchEnd = [locs[locs.length - 1][2], locs[locs.length - 1][3]]
        visitNodes(b.children, null)
      }
    } else visitNodes(n.children, n.loc)
    if (n.kind !== 'if' && n.kind !== 'for') scopeStack.length -= pushed.length
  }
  // globals
  for (const s of ast.scripts) scopeStack.push(s.children[0].value)
  for (const s of ast.scripts) { checkTagLocation(s.tag_location, 'wxs'); noteStart(s.module_attr_loc); noteStart(s.src_attr_loc); for (const ch of s.children) { noteStart(ch.loc); if (ch.k === 'static_attr_value') { const sl = src.slice(ch.loc); let dec = sl === null ? null : decodeEntities(sl); if (ch.fam === 'src' && dec !== null) dec = dec.replace(/\.wxs$/, ''); leaf(ch, 'decode(slice) == value', dec === ch.value, `the value is ${JSON.stringify(ch.value)}`) } else if (ch.k === 'script_content') leaf(ch, 'slice == content', src.slice(ch.loc) === ch.content, 'the inline script differs') } }
  for (const i of ast.imports) { checkTagLocation(i.tag_location, 'import'); visitAttr({ fam: 'src', children: i.children }, startTagLocOf(i.tag_location)) }
  for (const d of ast.sub_templates) { checkTagLocation(d.tag_location, 'template'); noteStart(d.name.loc); noteStart(d.name_attr_loc); leaf(d.name, 'decode(slice) == value', decodeEntities(src.slice(d.name.loc) ?? '\0') === d.name.value, `the template name is ${JSON.stringify(d.name.value)}`); const saved = scopeStack.length; visitNodes(d.children, null); scopeStack.length = saved }
  visitNodes(ast.content, null)

  // ---- source map of the printer
  if (smapRes) {
    const out = smapRes.str_plain
    const outSrc = new Src(out)
    let prev = [0, 0]
    for (const [dl, dc, sl, sc, name] of smapRes.smap_plain) {
      report.evals()
      if (cmp([dl, dc], prev) < 0) { viol(`source map: output position ${dl}:${dc} after ${prev[0]}:${prev[1]} (decreasing)`, {}); break }
      prev = [dl, dc]
      if (!outSrc.valid(dl, dc)) { viol(`source map: output position ${dl}:${dc} is outside the printed text`, {}); break }
      if (!src.valid(sl, sc)) { viol(`source map: source position ${sl}:${sc} is outside the source`, {}); break }
      if (!starts.has(sl + ':' + sc)) { viol(`source map: token at output ${dl}:${dc} ${name !== null ? '(' + JSON.stringify(name) + ') ' : ''}maps to ${sl}:${sc} (${JSON.stringify(src.lines[sl].slice(sc, sc + 12))}…), which is not the start of any recorded construct`, {}); break }
      if (name !== null) {
        const printed = outSrc.lines.slice(dl).join('\n').slice(dc, dc + 4 * name.length + 64)
        const at = src.lines.slice(sl).join('\n').slice(sc, sc + 12 * name.length + 64)
        const okOut = printed.startsWith(name) || decodeEntities(printed).startsWith(name)
        // (a directive name such as `wx:for-index` is never normalised: it must be the spelling at the position)
        const okSrc = /^wx:/.test(name) ? at.toLowerCase().startsWith(name.toLowerCase()) : at.startsWith(name) || decodeEntities(at).startsWith(name) || decodeEntities(src.text.split('\n').slice(sl).join('\n').slice(sc)).startsWith(name) || camel(at.replace(/^data-/, '')).toLowerCase().startsWith(name.toLowerCase().slice(0, 3))
        if (!okOut) { viol(`source map: the printed text at ${dl}:${dc} is ${JSON.stringify(printed.slice(0, 20))}, the entry is named ${JSON.stringify(name)}`, {}); break }
        if (!okSrc) { viol(`source map: the name ${JSON.stringify(name)} is not the spelling at source ${sl}:${sc} (${JSON.stringify(at.slice(0, 20))})`, {}); break }
        report.cell('source_map', 'named', 'entries')
      } else report.cell('source_map', 'unnamed', 'entries')
    }
  }
}

export function makeCases(ctx, n, fixed = null) {
  const cases = []
  for (let i = 0; i < n; i++) {
    const caseSeed = fixed ? fixed[i] : ctx.rng.u32()
    if (caseSeed === undefined) break
    const r = new Rng(caseSeed)
    const fs_ = genFileSet(r, { withModule: r.bool(0.5), slotReceivers: true })
    const crlf = r.bool(0.3)
    const st = { rng: r, spacing: r.bool(0.6), redundant: r.bool(0.3) ? 0.15 : 0, entities: r.bool(0.5) ? 0.2 : 0, layout: r.bool(0.7), between: true, shuffleAttrs: r.bool(0.5), unquoted: true }
    let sources
    try { sources = printFileSet(fs_, st) } catch (e) { continue }
    if (crlf) sources = sources.map(([p, s]) => [p, s.replace(/\n  /g, '\r\n  ').replace(/\n /g, '\r\n ')])
    // non-ASCII prologue so that byte, UTF-16 and character counts all differ before the first node
    if (r.bool(0.5)) sources = sources.map(([p, s]) => [p, r.pick(['é漢😀', '😀\n', '\u{10ffff} ', 'ｘ\r\n']) + s])
    // branches written after the `wx:else` of a chain do not belong to it (they start nothing: a diagnostic, no reordering)
    if (r.bool(0.06)) sources = sources.map(([p, s], k) => (k === sources.length - 1 ? [p, s + r.pick(['<i wx:if="{{a}}">1</i>\n<i wx:else>2</i><i wx:elif="{{b}}">3</i>', '<i wx:if="{{a}}">1</i><i wx:else>2</i>\n<i wx:else>3</i>', '<i wx:if="{{a}}"/><i wx:elif="{{b}}"/><i wx:else/><!-- c --><i wx:elif="{{c}}">x</i>'])] : [p, s]))
    cases.push({ id: cases.length, caseSeed, fs: fs_, sources, style: (crlf ? 'crlf' : 'lf') })
  }
  return cases
}

function runBatch(ctx, batch) {
  const asts = gevBatch('ast', batch.flatMap((c) => c.sources.map(([p, s]) => ({ id: c.id + ':' + p, src: s, path: p, iters: true }))))
  const printed = compileMany(batch.map((c) => ({ id: c.id, files: c.sources, scripts: [] })), { smap: true })
  for (const c of batch) {
    const pr = printed.get(c.id)
    for (const [p, s] of c.sources) {
      const a = asts.get(c.id + ':' + p)
      if (!a || a.inconclusive) { ctx.report.inconc(a ? a.inconclusive : 'no ast'); continue }
      if (a.crash || (a.panics && a.panics.length)) { ctx.report.violation('parser failed', { caseSeed: c.caseSeed, source: s, panics: a.panics, crash: a.crash }); continue }
      if ((a.diags || []).some((d) => d.level >= 3)) { ctx.report.count('not_parsed_without_error'); continue }
      // iterator monitor (gev ast): the public child iterators yield each direct child exactly once, in field order
      if (a.iters) {
        ctx.report.count('iter_expressions', a.iters.expressions)
        ctx.report.count('iter_elements', a.iters.elements)
        for (const v of a.iters.violations || []) ctx.report.violation('child iterator disagrees with the AST fields: ' + v, { caseSeed: c.caseSeed, source: s })
      }
      checkFile(ctx, c, p, s, a, pr && pr.files && pr.files[p])
    }
    ctx.report.sample({ files: c.sources }, 2)
  }
}

/** Findings recorded by their witness only (re-run on every invocation). */
function runFindingWitnesses(ctx) {
  const { report } = ctx
  const smapOf = (src) => compileMany([{ id: 0, files: [['p', src]], scripts: [] }], { smap: true }).get(0).files.p.smap_plain || []
  const witnesses = [
    ['value-location-from-last-binding', '<div>{{ first }}\n{{ second }}</div>', (m) => m.some((t) => t[0] === 0 && t[1] === 5 && t[2] === 1), 'a text / attribute value with several bindings is located from its LAST `{{`: the first `{{` printed maps to the source position of the last one, and Value::location() starts after the first bindings'],
    ['converted-attribute-name-in-source-map', '<input model:input-value="{{ v }}"/>', (m) => m.some((t) => t[4] === 'inputValue'), 'an attribute whose name is normalised (`model:input-value` -> `inputValue`, `data-user-id` -> `userId`) carries the normalised name, not the source spelling, as its source-map name'],
    ['if-chain-wrappers-share-tag-location', '<a wx:if="{{ x }}">1</a>\n<b wx:else>3</b>', (m) => m.filter((t) => t[2] === 0 && t[3] === 0).length >= 2, 'the <block> wrappers printed for wx:elif / wx:else branches all map to the tag of the first branch (one tag_location is kept for the whole chain)'],
  ]
  for (const [slug, src, pred, text] of witnesses) {
    let m
    try { m = smapOf(src) } catch (e) { m = null }
    if (m && pred(m)) report.knownHit(slug, text)
    else report.notes.push(`STALE-FINDING ${slug}: the recorded witness no longer reproduces`)
  }
  // a witness on the public AST itself: the wrapper the parser synthesises around a binding that is followed by text
  {
    const slug = 'synthesised-wrapper-located-at-closing-braces'
    let hit = false
    try {
      const a = gevBatch('ast', [{ id: 'w', src: '<div>{{ a }}b</div>', path: 'p' }]).get('w')
      const inside = (inner, outer) => cmp([inner[0], inner[1]], [outer[0], outer[1]]) >= 0 && cmp([inner[2], inner[3]], [outer[2], outer[3]]) <= 0
      const walk = (n) => {
        if (!n || typeof n !== 'object') return
        if (Array.isArray(n)) { n.forEach(walk); return }
        if (n.k === 'to_string' && n.operand && n.loc && n.operand.loc && !inside(n.operand.loc, n.loc)) hit = true
        for (const v of Object.values(n)) walk(v)
      }
      walk(a)
    } catch (e) { hit = false }
    if (hit) report.knownHit(slug, '`<div>{{ a }}b</div>`: the ToStringWithoutUndefined node the parser wraps around the binding is located at the closing `}}` only (0:10-0:12), so its operand `a` (0:8-0:9) lies outside its parent, and the concatenation above it is located `}}b`')
    else report.notes.push(`STALE-FINDING ${slug}: the recorded witness no longer reproduces`)
  }
}

export async function run(ctx) {
  if (ctx.shard === 0) runFindingWitnesses(ctx)
  const N = ctx.tier === 'thorough' ? 12000 : 1500
  const cases = makeCases(ctx, N)
  for (let i = 0; i < cases.length; i += 300) runBatch(ctx, cases.slice(i, i + 300))
  ctx.report.count('templates', cases.length)
}

export async function replay(ctx) {
  runBatch(ctx, makeCases(ctx, 1, [ctx.replay.witness.caseSeed]))
}
