// Data mutators for update histories (C06/C07/C14): each op is a descriptor that can be applied purely to a
// fresh data object (to compute D_i) and driven through the real component API (to produce the history).
import { Rng } from './prng.mjs'
import { edgeValueSmall as edgeValue } from './values.mjs'

export function valueOf(vseed) {
  return edgeValue(new Rng(vseed))
}
export function itemOf(vseed) {
  const r = new Rng(vseed)
  const i = r.int(9)
  return { k: 'k' + i, id: i, v: edgeValue(r), x: r.pick([1, 'x', null, { y: 2 }]), sub: r.bool(0.5) ? [i, 'p' + i] : undefined }
}

function get(D, path) {
  let cur = D
  for (const s of path) {
    if (cur === null || cur === undefined) return undefined
    cur = cur[s]
  }
  return cur
}
function containerOk(D, path) {
  const parent = get(D, path.slice(0, -1))
  return parent !== null && typeof parent === 'object'
}

export function pathString(path) {
  let s = ''
  for (const seg of path) s += typeof seg === 'number' ? `[${seg}]` : s === '' ? seg : '.' + seg
  return s
}

/** Enumerate settable paths of D (existing containers only), to depth 4. */
export function settablePaths(D, fields) {
  const out = []
  const rec = (v, path, depth) => {
    out.push(path)
    if (depth >= 4 || v === null || typeof v !== 'object') return
    if (Array.isArray(v)) { for (let i = 0; i < Math.min(v.length, 3); i++) rec(v[i], [...path, i], depth + 1) }
    else for (const k of Object.keys(v).slice(0, 4)) rec(v[k], [...path, k], depth + 1)
  }
  for (const f of fields) rec(D[f], [f], 1)
  return out
}

/** Draw one op for the current data D. */
export function genOp(rng, D, fields, listFields = ['list', 'arr'], prefer = []) {
  const r = rng.int(100)
  if (r < 30) {
    let paths = settablePaths(D, fields).filter((p) => containerOk(D, p))
    if (prefer.length && rng.bool(0.6)) {
      // deep paths below the fields that structural expressions read
      const deep = paths.filter((p) => prefer.includes(p[0]) && p.length >= 2)
      if (deep.length) paths = deep
    }
    const path = rng.pick(paths)
    return { op: 'set', path, vseed: rng.u32(), item: path[0] === 'list' && path.length === 2 }
  }
  if (r < 45) return { op: 'set', path: [rng.pick(fields)], vseed: rng.u32() }
  if (r < 74) {
    const f = rng.pick(listFields)
    const cur = Array.isArray(D[f]) ? D[f] : []
    const kind = rng.pick(['push', 'pop', 'insert', 'remove', 'reverse', 'rotate', 'dupKey', 'clear', 'replaceAll'])
    const viaSplice = rng.bool(0.4) && Array.isArray(D[f]) && ['push', 'pop', 'insert', 'remove'].includes(kind)
    return { op: 'list', field: f, kind, index: rng.int(cur.length + 1), vseed: rng.u32(), viaSplice }
  }
  if (r < 83) {
    // several paths in one call
    const n = rng.range(2, 3)
    const ops = []
    const seen = new Set()
    for (let i = 0; i < n; i++) {
      const f = rng.pick(fields)
      if (seen.has(f)) continue
      seen.add(f)
      ops.push({ op: 'set', path: [f], vseed: rng.u32() })
    }
    return { op: 'multi', ops }
  }
  if (r < 96) {
    // add / remove a key of an object (only that key's path differs; positions of the other keys shift)
    const objs = settablePaths(D, fields).filter((p) => { const v = get(D, p); return v !== null && typeof v === 'object' && !Array.isArray(v) && typeof v !== 'function' })
    const pref = objs.filter((p) => prefer.includes(p[0]))
    const path = (pref.length && rng.bool(0.7)) ? rng.pick(pref) : objs.length ? rng.pick(objs) : null
    if (path) {
      const keys = Object.keys(get(D, path))
      const kind = keys.length && rng.bool(0.5) ? 'del' : rng.pick(['add', 'addFront'])
      return { op: 'key', path, kind, key: kind === 'del' ? rng.pick(keys) : rng.pick(['zz', 'k9', 'a0', 'items', 'x']), vseed: rng.u32() }
    }
  }
  // type change of a list/object field
  const f = rng.pick(['list', 'arr', 'obj', 'ob', 'n', 's'].filter((x) => fields.includes(x) || listFields.includes(x)))
  return { op: 'set', path: [f], vseed: rng.u32(), retype: true }
}

function structuredCloneSafe(v) {
  if (Array.isArray(v)) return v.map(structuredCloneSafe)
  if (v && typeof v === 'object' && Object.getPrototypeOf(v) === Object.prototype) return Object.fromEntries(Object.entries(v).map(([k, x]) => [k, structuredCloneSafe(x)]))
  return v
}
function listAfter(cur, o) {
  const a = Array.isArray(cur) ? cur.slice() : []
  const it = () => (o.field === 'list' ? itemOf(o.vseed) : valueOf(o.vseed))
  switch (o.kind) {
    case 'push': a.push(it()); break
    case 'pop': a.pop(); break
    case 'insert': a.splice(Math.min(o.index, a.length), 0, it()); break
    case 'remove': a.splice(Math.min(o.index, Math.max(0, a.length - 1)), 1); break
    case 'reverse': a.reverse(); break
    case 'rotate': if (a.length) a.push(a.shift()); break
    // (a deep copy: two items that share a nested object would both change when a path through one of them is set,
    //  which no path-based update can know)
    case 'dupKey': if (a.length) a.push(o.field === 'list' && a[0] && typeof a[0] === 'object' ? { ...structuredCloneSafe(a[0]), v: 'dup' } : structuredCloneSafe(a[0])); break
    case 'clear': a.length = 0; break
    case 'replaceAll': return Array.from({ length: o.index % 4 }, (_, i) => (o.field === 'list' ? itemOf(o.vseed + i) : valueOf(o.vseed + i)))
  }
  return a
}
function spliceArgs(cur, o) {
  const len = cur.length
  switch (o.kind) {
    case 'push': return [len, 0, [o.field === 'list' ? itemOf(o.vseed) : valueOf(o.vseed)]]
    case 'pop': return [Math.max(0, len - 1), len ? 1 : 0, []]
    case 'insert': return [Math.min(o.index, len), 0, [o.field === 'list' ? itemOf(o.vseed) : valueOf(o.vseed)]]
    case 'remove': return [Math.min(o.index, Math.max(0, len - 1)), len ? 1 : 0, []]
  }
  throw new Error('splice kind')
}

/** Pure application on a data object that nobody else references. Returns the changed paths. */
export function applyOp(D, o) {
  switch (o.op) {
    case 'set': {
      if (!containerOk(D, o.path)) return []
      const parent = get(D, o.path.slice(0, -1))
      parent[o.path[o.path.length - 1]] = o.item ? itemOf(o.vseed) : valueOf(o.vseed)
      return [o.path]
    }
    case 'list': {
      if (o.viaSplice && Array.isArray(D[o.field])) {
        const [i, d, ins] = spliceArgs(D[o.field], o)
        D[o.field].splice(i, d, ...ins)
      } else D[o.field] = listAfter(D[o.field], o)
      return [[o.field]]
    }
    case 'multi': return o.ops.flatMap((x) => applyOp(D, x))
    case 'key': {
      const cur = get(D, o.path)
      if (cur === null || typeof cur !== 'object' || Array.isArray(cur)) return []
      if (o.kind === 'del' && !(o.key in cur)) return []
      if (o.kind === 'add') { cur[o.key] = valueOf(o.vseed); return [[...o.path, o.key]] }
      // del / addFront (the new key comes first in iteration order): as through the component API, the parent object
      // is replaced by one with the other key set
      const next = Object.create(Object.getPrototypeOf(cur))
      if (o.kind === 'addFront') next[o.key] = valueOf(o.vseed)
      for (const k of Object.keys(cur)) if (k !== o.key) next[k] = cur[k]
      const holder = o.path.length > 1 ? get(D, o.path.slice(0, -1)) : D
      holder[o.path[o.path.length - 1]] = next
      return [[...o.path, o.key]]
    }
  }
  throw new Error('applyOp ' + o.op)
}

/** Drive the same op through the real component API (setData / spliceArrayDataOnPath). */
export function driveOp(comp, o) {
  const D = comp.data
  switch (o.op) {
    case 'set': {
      if (!containerOk(D, o.path)) return false
      comp.setData({ [pathString(o.path)]: o.item ? itemOf(o.vseed) : valueOf(o.vseed) })
      return true
    }
    case 'list': {
      if (o.viaSplice && Array.isArray(D[o.field])) {
        const [i, d, ins] = spliceArgs(D[o.field], o)
        comp.spliceArrayDataOnPath([o.field], i, d, ins)
        comp.applyDataUpdates()
      } else comp.setData({ [o.field]: listAfter(D[o.field], o) })
      return true
    }
    case 'multi': {
      const patch = {}
      for (const x of o.ops) patch[pathString(x.path)] = valueOf(x.vseed)
      comp.setData(patch)
      return true
    }
  }
  if (o.op === 'key') {
    // through the component API a key can only disappear (or move) by replacing its parent object
    const cur = get(D, o.path)
    if (cur === null || typeof cur !== 'object' || Array.isArray(cur)) return false
    if (o.kind === 'add') { comp.setData({ [pathString([...o.path, o.key])]: valueOf(o.vseed) }); return true }
    const next = Object.create(Object.getPrototypeOf(cur)) // same kind of object, other key set
    if (o.kind === 'addFront') next[o.key] = valueOf(o.vseed)
    for (const k of Object.keys(cur)) if (k !== o.key) next[k] = cur[k]
    if (o.kind === 'del' && !(o.key in cur)) return false
    comp.setData({ [pathString(o.path)]: next })
    return true
  }
  throw new Error('driveOp ' + o.op)
}

export function showOp(o) {
  if (o.op === 'set') return `set ${pathString(o.path)}`
  if (o.op === 'list') return `${o.viaSplice ? 'splice' : 'setData'} ${o.field}.${o.kind}@${o.index}`
  if (o.op === 'key') return `${o.kind}-key ${pathString([...o.path, o.key])}`
  return 'multi{' + o.ops.map(showOp).join(', ') + '}'
}

/** Update-path tree (exact) for a set of changed paths; `coarsen` cuts at a depth. */
export function pathTree(paths, coarsenDepth = Infinity) {
  if (paths.some((p) => p.length === 0)) return true
  const root = Object.create(null)
  for (const p of paths) {
    let cur = root
    for (let i = 0; i < p.length; i++) {
      const k = String(p[i])
      if (cur[k] === true) break
      if (i === p.length - 1 || i + 1 >= coarsenDepth) { cur[k] = true; break }
      cur[k] = cur[k] || Object.create(null)
      cur = cur[k]
    }
  }
  return root
}
