// E3 (part 2): the reference meaning of an abstract template — a renderer written from the
// documentation and the property statements. It does not parse WXML and shares no code with the SUT.
// Output format = the snapshot format of rt.mjs (flattened node list).
import * as X from './expr.mjs'
import { isStatic, isSingle, staticText, dashToCamel, PROP_COMPONENT_PROPS as PROP_NAMES } from './tmodel.mjs'

export const Y = (x) => (x === null || x === undefined ? '' : String(x))

// ---- reference path resolution (C13): POSIX-like, clamped at the root, optional suffix ignored
export function refResolve(base, rel) {
  const out = []
  if (!rel.startsWith('/')) {
    const b = base.split('/')
    b.pop()
    for (const s of b) {
      if (s === '.' || s === '') continue // (an empty segment, as in `a//b`, names nothing)
      if (s === '..') { out.pop(); continue }
      out.push(s)
    }
  }
  for (const s of rel.replace(/^\//, '').split('/')) {
    if (s === '.' || s === '') continue
    if (s === '..') { out.pop(); continue }
    out.push(s)
  }
  return out.join('/')
}
export function stripSuffix(p, suffix) {
  return p.endsWith(suffix) ? p.slice(0, -suffix.length) : p
}

export class Env {
  constructor(scopes, data) {
    this.scopes = scopes // [{name, value}], innermost last
    this.data = data
  }
  lookup(name) {
    for (let i = this.scopes.length - 1; i >= 0; i--) if (this.scopes[i].name === name) return this.scopes[i].value
    const d = this.data
    return d === null || d === undefined ? undefined : d[name]
  }
  /** who provides `name`: {kind:'scope', index} | {kind:'data'} */
  provider(name) {
    for (let i = this.scopes.length - 1; i >= 0; i--) if (this.scopes[i].name === name) return { kind: 'scope', index: i, scope: this.scopes[i] }
    return { kind: 'data' }
  }
  push(...s) {
    return new Env([...this.scopes, ...s], this.data)
  }
}

export function evalValue(v, env) {
  if (isStatic(v)) return staticText(v)
  if (isSingle(v)) return X.evalExpr(v.parts[0].e, env)
  let s = ''
  for (const p of v.parts) s += 's' in p ? p.s : Y(X.evalExpr(p.e, env))
  return s
}

export function forItems(list) {
  // what wx:for iterates: arrays; objects (own enumerable keys, string index); strings (UTF-16 units);
  // non-negative safe integers (0..n-1); anything else is empty
  if (Array.isArray(list)) return Array.from({ length: list.length }, (_, i) => ({ item: list[i], index: i }))
  if (typeof list === 'object' && list !== null) return Object.keys(list).map((k) => ({ item: list[k], index: k }))
  if (typeof list === 'string') return Array.from({ length: list.length }, (_, i) => ({ item: list[i], index: i }))
  if (typeof list === 'number') {
    const n = Number.isSafeInteger(list) && list >= 0 && list < 2 ** 32 ? list : 0
    if (n > 5000) throw new X.RefThrow('wx:for over a huge count is not part of the workload')
    return Array.from({ length: n }, (_, i) => ({ item: i, index: i }))
  }
  return []
}

const EVENT_FLAGS = {
  bind: [false, false, false], catch: [true, false, false], 'mut-bind': [false, true, false],
  'capture-bind': [false, false, true], 'capture-catch': [true, false, true], 'capture-mut-bind': [false, true, true],
}

/** slot value names requested by the direct children of an element (what the element announces to the runtime) */
function childSlotValueNames(children) {
  const out = []
  for (const c of children) for (const s of c.slotVals || []) if (!out.includes(dashToCamel(s.name))) out.push(dashToCamel(s.name))
  // (the order in which the names are listed carries no meaning; both sides are compared sorted)
  return out.length ? out.sort() : undefined
}

export class Renderer {
  /** group: { files: {path: File}, scripts: {path: code} } */
  constructor(group, opts = {}) {
    this.group = group
    this.opts = opts
    this.moduleCache = new Map()
    this.scriptCache = new Map()
  }

  // --- script modules
  requireScript(absPath) {
    if (this.scriptCache.has(absPath)) return this.scriptCache.get(absPath).exports
    const code = this.group.scripts[absPath]
    if (code === undefined) throw new Error('no such WXS module: ' + absPath)
    const module = { exports: {} }
    this.scriptCache.set(absPath, module)
    const require = (rel) => this.requireScript(refResolve(absPath, rel))
    new Function('require', 'exports', 'module', code)(require, module.exports, module)
    return module.exports
  }
  fileScopes(path) {
    if (this.moduleCache.has(path)) return this.moduleCache.get(path)
    const f = this.group.files[path]
    const scopes = []
    for (const w of f.wxs || []) {
      if (scopes.some((s) => s.name === w.module)) continue // a duplicated module name keeps the first
      let value
      if (w.src !== undefined) value = this.requireScript(refResolve(path, stripSuffix(w.src, '.wxs')))
      else {
        const module = { exports: {} }
        const require = (rel) => this.requireScript(refResolve(path, rel))
        new Function('require', 'exports', 'module', w.code)(require, module.exports, module)
        value = module.exports
      }
      scopes.push({ name: w.module, value, kind: 'module', file: path, src: w.src !== undefined ? refResolve(path, stripSuffix(w.src, '.wxs')) : null })
    }
    this.moduleCache.set(path, scopes)
    return scopes
  }

  /** templates visible from `path`: local definitions, then later imports, then earlier imports */
  findTemplate(path, name) {
    const f = this.group.files[path]
    const local = (f.defs || []).find((d) => d.name === name)
    if (local) return { def: local, file: path }
    const imports = f.imports || []
    for (let i = imports.length - 1; i >= 0; i--) {
      const target = refResolve(path, stripSuffix(imports[i], '.wxml'))
      const tf = this.group.files[target]
      if (!tf) continue
      const d = (tf.defs || []).find((x) => x.name === name)
      if (d) return { def: d, file: target }
    }
    return null
  }

  renderMain(path, data) {
    const f = this.group.files[path]
    return this.renderNodes(f.children, new Env(this.fileScopes(path), data), path)
  }

  renderNodes(nodes, env, file) {
    const out = []
    for (const n of nodes) this.renderNode(n, env, file, out)
    return out
  }

  attrsToChannels(n, env) {
    const ch = {}
    const put = (k, name, v) => { (ch[k] = ch[k] || {})[name] = v }
    let slot = ''
    let generics = {}
    for (const a of n.attrs || []) {
      const has = a.value !== null && a.value !== undefined
      const val = has ? evalValue(a.value, env) : undefined
      switch (a.fam) {
        case 'plain':
          if (n.t === 'slot') put('l', dashToCamel(a.name), has ? val : '')
          else put('r', a.name, has ? val : true)
          break
        case 'model': put('r', dashToCamel(a.name), has ? val : true); break
        case 'class': ch.c = has ? val : ''; break
        case 'style': ch.y = has ? val : ''; break
        case 'id': ch.i = has ? val : ''; break
        case 'slot': slot = has && val !== undefined ? String(val) : ''; break
        case 'data-': put('d', dashToCamel(a.name.toLowerCase()), has ? val : true); break
        case 'data:': put('d', a.name, has ? val : true); break
        case 'mark': put('m', a.name, has ? val : true); break
        case 'change': if (has && !isStatic(a.value)) put('p', dashToCamel(a.name), val); break
        case 'worklet': put('wl', dashToCamel(a.name), has ? val : ''); break
        case 'generic': generics[a.name] = has ? val : ''; break
        case 'extra-attr': put('a', a.name, has ? val : ''); break
        default: {
          const [isCatch, isMut, isCapture] = EVENT_FLAGS[a.fam]
          put('v', a.name, [has ? val : '', isCatch, isMut, isCapture, has && !isStatic(a.value)])
        }
      }
    }
    return { ch, slot, generics }
  }

  renderNode(n, env, file, out) {
    switch (n.t) {
      case 'comment': return
      case 'hoist': return // file-level element written between nodes: renders nothing here
      case 'text': {
        if (isStatic(n.v)) {
          const s = staticText(n.v)
          if (/^[ \t\n\r\f\v]*$/.test(s)) return // whitespace-only static text is dropped
          out.push({ k: 'text', text: s })
        } else out.push({ k: 'text', text: Y(evalValue(n.v, env)) })
        return
      }
      case 'el': {
        let e2 = env
        if (n.slotVals && n.slotVals.length) e2 = env.push(...n.slotVals.map((s) => ({ name: s.as === undefined ? dashToCamel(s.name) : s.as, value: (this.opts.slotValues || {})[dashToCamel(s.name)], kind: 'slotval', slotValueName: dashToCamel(s.name) })))
        const { ch, slot, generics } = this.attrsToChannels(n, e2)
        const el = { k: 'el', tag: n.tag, slot, ch, generics, dsv: childSlotValueNames(n.children), children: this.renderNodes(n.children, e2, file) }
        if (this.opts.propComponents && n.tag === 'x-a') {
          // `<x-a>` is a component with any-typed properties: plain and model: attributes whose camel-cased name
          // is a declared property set it (a valueless attribute is `true`, `undefined` falls back to the default null)
          el.props = Object.fromEntries(PROP_NAMES.map((p) => [p, null]))
          for (const a of n.attrs) {
            if (a.fam === 'style') {
              // a component that declares a property `style` receives the attribute as that property
              const v = a.value === null || a.value === undefined ? '' : evalValue(a.value, e2)
              el.props.style = v === undefined ? null : v
              continue
            }
            if (a.fam !== 'plain' && a.fam !== 'model') continue
            const camel = dashToCamel(a.name)
            if (!PROP_NAMES.includes(camel)) continue
            const v = a.value === null || a.value === undefined ? true : evalValue(a.value, e2)
            el.props[camel] = v === undefined ? null : v
          }
        }
        if (this.opts.onElement) this.opts.onElement(el, n, e2, file)
        out.push(el)
        return
      }
      case 'block': {
        if (n.slotAttr || (n.slotVals && n.slotVals.length)) {
          let e2 = env
          if (n.slotVals && n.slotVals.length) e2 = env.push(...n.slotVals.map((s) => ({ name: s.as === undefined ? dashToCamel(s.name) : s.as, value: (this.opts.slotValues || {})[dashToCamel(s.name)], kind: 'slotval' })))
          const v = { k: 'virtual', slot: n.slotAttr ? Y(evalValue(n.slotAttr, e2)) : '', children: this.renderNodes(n.children, e2, file) }
          out.push(v)
        } else for (const c of n.children) this.renderNode(c, env, file, out)
        return
      }
      case 'if': {
        for (const b of n.branches) {
          if (evalValue(b.cond, env)) { this.renderNode(b.node, env, file, out); return }
        }
        if (n.els) this.renderNode(n.els, env, file, out)
        return
      }
      case 'for': {
        const list = evalValue(n.list, env)
        const itemName = n.item === undefined ? 'item' : n.item
        const indexName = n.index === undefined ? 'index' : n.index
        for (const { item, index } of forItems(list)) {
          // `index` is introduced after `item`
          const e2 = env.push({ name: itemName, value: item, kind: 'item', listValue: n.list, index }, { name: indexName, value: index, kind: 'index' })
          if (n.cond && !evalValue(n.cond, e2)) continue
          this.renderNode(n.node, e2, file, out)
        }
        return
      }
      case 'tref': {
        const key = evalValue(n.is, env)
        if (!key) return
        const t = this.findTemplate(file, String(key))
        if (!t) return
        const data = n.data ? X.evalExpr(n.data, env) : {} // no `data`: the sub-template has no data fields at all
        // (a `data` expression that does not yield an object has no meaning the documentation gives)
        if (data === null || typeof data !== 'object') throw new X.RefThrow('template data is not an object')
        const env2 = new Env(this.fileScopes(t.file), data)
        for (const c of t.def.children) this.renderNode(c, env2, t.file, out)
        return
      }
      case 'include': {
        const target = refResolve(file, stripSuffix(n.src, '.wxml'))
        const tf = this.group.files[target]
        if (!tf) return
        const env2 = new Env(this.fileScopes(target), env.data)
        for (const c of tf.children) this.renderNode(c, env2, target, out)
        return
      }
      case 'slot': {
        const { ch } = this.attrsToChannels(n, env)
        out.push({ k: 'slot', name: n.name ? Y(evalValue(n.name, env)) : '', slot: '', ch })
        return
      }
    }
    throw new Error('render: ' + n.t)
  }
}

/** Reduce an observed snapshot to what the reference predicts (values only, no l-value paths). */
export function normalizeObserved(nodes) {
  return nodes.map((n) => {
    if (n.k === 'text') return n
    const ch = {}
    for (const [k, v] of Object.entries(n.ch || {})) {
      if (k === 'r') { ch.r = {}; for (const [name, arr] of Object.entries(v)) ch.r[name] = arr[0] }
      else if (k === 'v') { ch.v = {}; for (const [name, arr] of Object.entries(v)) ch.v[name] = arr.slice(0, 5) }
      else if (k === 'p') { ch.p = {}; for (const [name, arr] of Object.entries(v)) ch.p[name] = arr[0] }
      else if (k === 'l') { ch.l = {}; for (const [name, arr] of Object.entries(v)) ch.l[name] = arr[0] }
      else if (k === 's') continue
      else ch[k] = v
    }
    if (n.k === 'slot') return { k: 'slot', name: n.name, slot: n.slot, ch }
    if (n.k === 'virtual') return { k: 'virtual', slot: n.slot, children: normalizeObserved(n.children) }
    return { k: 'el', tag: n.tag, slot: n.slot, ch, generics: n.generics || {}, dsv: n.dsv ? [...n.dsv].sort() : n.dsv, ...(n.props ? { props: n.props } : {}), children: normalizeObserved(n.children) }
  })
}
