// Abstract binding expressions: generator, WXML printer (minimal / redundant parentheses, spelling
// variation), and the reference evaluator (an interpreter over the abstract tree that applies the JS
// engine's own operators; it shares nothing with the compiler under test and never parses WXML).

export const BINARY = [
  ['*', 12], ['/', 12], ['%', 12], ['+', 11], ['-', 11], ['<<', 10], ['>>', 10], ['>>>', 10],
  ['<', 9], ['>', 9], ['<=', 9], ['>=', 9], ['instanceof', 9], ['==', 8], ['!=', 8], ['===', 8], ['!==', 8],
  ['&', 7], ['^', 6], ['|', 5], ['&&', 4], ['||', 3], ['??', 2],
]
export const BIN_LEVEL = Object.fromEntries(BINARY)
export const UNARY = ['!', '~', '+', '-', 'typeof', 'void']
const L_COND = 1
const L_UNARY = 14
const L_MEMBER = 17
const L_PRIMARY = 18

// ---- constructors
export const id = (name) => ({ t: 'id', name })
export const num = (raw) => ({ t: 'num', raw })
export const str = (v) => ({ t: 'str', v })
export const kw = (v) => ({ t: 'kw', v }) // true false null undefined
export const un = (op, a) => ({ t: 'un', op, a })
export const bin = (op, a, b) => ({ t: 'bin', op, a, b })
export const cond = (c, a, b) => ({ t: 'cond', c, a, b })
export const mem = (o, name) => ({ t: 'mem', o, name })
export const idx = (o, i) => ({ t: 'idx', o, i })
export const call = (f, args) => ({ t: 'call', f, args })
export const arr = (items) => ({ t: 'arr', items }) // items: {k:'v',e} | {k:'spread',e} | {k:'hole'}
export const obj = (fields) => ({ t: 'obj', fields }) // fields: {k:'kv',name,e} | {k:'short',name} | {k:'spread',e}

export function level(e) {
  switch (e.t) {
    case 'cond': return L_COND
    case 'bin': return BIN_LEVEL[e.op]
    case 'un': return L_UNARY
    case 'mem': case 'idx': case 'call': return L_MEMBER
    default: return L_PRIMARY
  }
}

// ---- shape (structural hash input with literals erased)
export function shape(e) {
  switch (e.t) {
    case 'id': return 'i'
    case 'num': return 'n'
    case 'str': return 's'
    case 'kw': return 'k'
    case 'un': return `(${e.op} ${shape(e.a)})`
    case 'bin': return `(${shape(e.a)} ${e.op} ${shape(e.b)})`
    case 'cond': return `(${shape(e.c)}?${shape(e.a)}:${shape(e.b)})`
    case 'mem': return `${shape(e.o)}.m`
    case 'idx': return `${shape(e.o)}[${shape(e.i)}]`
    case 'call': return `${shape(e.f)}(${e.args.map(shape).join(',')})`
    case 'arr': return `[${e.items.map((x) => (x.k === 'hole' ? '' : x.k === 'spread' ? '...' + shape(x.e) : shape(x.e))).join(',')}]`
    case 'obj': return `{${e.fields.map((x) => (x.k === 'short' ? 'S' : x.k === 'spread' ? '...' + shape(x.e) : 'K:' + shape(x.e))).join(',')}}`
  }
  throw new Error('shape: ' + e.t)
}

export function countOps(e) {
  let n = 0
  walk(e, (x) => {
    if (x.t !== 'id' && x.t !== 'num' && x.t !== 'str' && x.t !== 'kw') n++
  })
  return n
}

export function children(e) {
  switch (e.t) {
    case 'un': return [e.a]
    case 'bin': return [e.a, e.b]
    case 'cond': return [e.c, e.a, e.b]
    case 'mem': return [e.o]
    case 'idx': return [e.o, e.i]
    case 'call': return [e.f, ...e.args]
    case 'arr': return e.items.filter((x) => x.k !== 'hole').map((x) => x.e)
    case 'obj': return e.fields.filter((x) => x.k !== 'short').map((x) => x.e)
    default: return []
  }
}
export function walk(e, f) {
  f(e)
  for (const c of children(e)) walk(c, f)
}
export function identifiers(e) {
  const out = []
  walk(e, (x) => {
    if (x.t === 'id') out.push(x.name)
    if (x.t === 'obj') for (const f of x.fields) if (f.k === 'short') out.push(f.name)
  })
  return out
}
export function depthOf(e) {
  let d = 0
  for (const c of children(e)) d = Math.max(d, depthOf(c))
  return d + 1
}

// ---- printing ---------------------------------------------------------------------------------

function strLiteral(v, st) {
  // choose a quote and a spelling per character; only escapes the compiler documents are used
  const rng = st.rng
  const q = st.quote || (rng && rng.bool(0.3) ? '"' : "'")
  let out = q
  const cps = Array.from(v)
  for (let i = 0; i < cps.length; i++) {
    const ch = cps[i]
    const cp = ch.codePointAt(0)
    const nextIsDigit = i + 1 < cps.length && /[0-9]/.test(cps[i + 1])
    let esc = null
    if (ch === q || ch === '\\') esc = '\\' + ch
    else if (ch === '\n') esc = '\\n'
    else if (ch === '\r') esc = '\\r'
    else if (cp === 0x2028 || cp === 0x2029) esc = '\\u' + cp.toString(16).padStart(4, '0')
    else if (cp === 0) esc = nextIsDigit ? '\\x00' : '\\0'
    else if (st.avoid && st.avoid.includes(ch)) esc = cp <= 0xff ? '\\x' + cp.toString(16).padStart(2, '0') : cp <= 0xffff ? '\\u' + cp.toString(16).padStart(4, '0') : null
    if (esc === null && rng && rng.bool(0.15)) {
      // optional spellings of ordinary characters
      const m = { '\t': '\\t', '\b': '\\b', '\f': '\\f', '\v': '\\v' }[ch]
      if (m) esc = m
      else if (cp <= 0xff && rng.bool()) { esc = '\\x' + cp.toString(16).padStart(2, '0'); if (rng.bool(0.4)) esc = '\\x' + esc.slice(2).toUpperCase() }
      // (legacy octal escapes, as sloppy-mode JavaScript reads them: three digits, or fewer when no digit follows)
      else if (cp <= 0xff && rng.bool(0.3)) esc = '\\' + (nextIsDigit || rng.bool() ? cp.toString(8).padStart(3, '0') : cp.toString(8))
      else if (cp <= 0xffff && !(cp >= 0xd800 && cp <= 0xdfff)) esc = rng.bool(0.8) ? '\\u' + cp.toString(16).padStart(4, '0').toUpperCase() : '\\u{' + cp.toString(16).padStart(rng.int(9) + 1, '0') + '}'
      // an astral character as a surrogate pair of escapes, or as a code point escape
      else if (cp > 0xffff) {
        const hi = ch.charCodeAt(0).toString(16)
        const lo = ch.charCodeAt(1).toString(16).toUpperCase()
        esc = rng.pick([() => '\\u' + hi + '\\u' + lo, () => '\\u{' + cp.toString(16).padStart(rng.int(5) + 5, '0') + '}', () => '\\u{' + hi + '}\\u{' + lo + '}', () => '\\u' + hi + '\\u{00' + lo + '}', () => '\\u{' + hi + '}\\u' + lo])()
      }
    }
    out += esc === null ? ch : esc
    // a line continuation (backslash + line terminator) denotes nothing
    if (rng && st.spacing && !st.noNewline && rng.bool(0.015)) out += '\\' + rng.pick(['\n', '\r\n', '\u2028', '\r'])
  }
  return out + q
}

function ws(st, must = false) {
  const rng = st.rng
  if (!rng || !st.spacing) return must ? ' ' : ''
  const r = rng.int(13)
  if (r === 12) return st.noComments || st.noNewline ? ' ' : rng.pick(['/* 漢\n😀 */', ' /*\n\n😀😀*/ ', '/*😀*/', '\r\n'])
  if (r < 7) return must ? ' ' : ''
  if (r < 9) return ' '
  if (r === 9) return st.noComments ? ' ' : ' /* c */ '
  if (r === 10) return st.noNewline ? '  ' : '\n '
  return st.noComments ? '\t' : '/**/' + (must ? ' ' : '')
}

function wrapIf(need, s, st) {
  if (need) return '(' + s + ')'
  if (st.redundant && st.rng && st.rng.bool(st.redundant)) return '(' + ws(st) + s + ws(st) + ')'
  return s
}

/** Print `e` where a sub-expression of at least `minLevel` is required. */
function pr(e, minLevel, st, opts = {}) {
  const lv = level(e)
  let need = lv < minLevel
  let s
  switch (e.t) {
    case 'id':
      s = e.name
      break
    case 'num':
      s = e.raw
      if (opts.memberObject) need = true // `1.x` is not a member access
      break
    case 'str':
      s = strLiteral(e.v, st)
      break
    case 'kw':
      s = e.v
      break
    case 'un': {
      const word = e.op === 'typeof' || e.op === 'void'
      let operand = pr(e.a, L_UNARY, st)
      // `- -a`, `+ +a`, `- --`… must not fuse; keyword operators need a separator before identifiers
      let sep = ws(st)
      if (word && !/^[(\[{'"]/.test(operand)) sep = ws(st, true)
      if ((e.op === '-' || e.op === '+') && /^[-+]/.test(operand) && sep === '') sep = ' '
      if ((e.op === '-' || e.op === '+') && sep.startsWith('/')) sep = ' ' + sep
      s = e.op + sep + operand
      break
    }
    case 'bin': {
      const mine = BIN_LEVEL[e.op]
      let l, r
      if (e.op === '??') {
        // CoalesceExpression: operands are BitwiseOR-level; the head may be another `??`
        l = e.a.t === 'bin' && e.a.op === '??' ? pr(e.a, 2, st) : pr(e.a, 5, st)
        r = pr(e.b, 5, st)
      } else if (e.op === '||' || e.op === '&&') {
        const noNullish = (x, lvl) => (x.t === 'bin' && x.op === '??' ? pr(x, 99, st) : pr(x, lvl, st))
        l = noNullish(e.a, mine)
        r = noNullish(e.b, mine + 1)
      } else {
        l = pr(e.a, mine, st)
        r = pr(e.b, mine + 1, st)
      }
      const word = e.op === 'instanceof'
      let s1 = ws(st, word)
      let s2 = ws(st, word)
      // avoid fusing `a+ +b` into `a++b`, `a- -b`, `a/ /x/`, `a< <`…; and `a<!--`
      if (/^[-+]/.test(r) && /[-+]$/.test(e.op) && s2 === '') s2 = ' '
      if (e.op === '/' && (s2.startsWith('/') || s1.endsWith('/'))) { s1 = ' '; s2 = ' ' }
      if (e.op === '*' && (s2.startsWith('/') || s1.endsWith('/'))) { s1 = ' '; s2 = ' ' }
      if (e.op === '<' && /^!/.test(r) && s2 === '') s2 = ' '
      if (e.op === '&' && /^&/.test(r)) s2 = ' '
      s = l + s1 + e.op + s2 + r
      break
    }
    case 'cond':
      s = pr(e.c, 2, st) + ws(st) + '?' + ws(st) + guardDot(pr(e.a, L_COND, st)) + ws(st) + ':' + ws(st) + pr(e.b, L_COND, st)
      break
    case 'mem':
      s = pr(e.o, L_MEMBER, st, { memberObject: true }) + ws(st) + '.' + ws(st) + e.name
      break
    case 'idx':
      s = pr(e.o, L_MEMBER, st, { memberObject: false }) + ws(st) + '[' + ws(st) + pr(e.i, L_COND, st) + ws(st) + ']'
      break
    case 'call':
      s = pr(e.f, L_MEMBER, st) + ws(st) + '(' + e.args.map((a) => ws(st) + pr(a, L_COND, st) + ws(st)).join(',') + ')'
      break
    case 'arr': {
      const parts = []
      e.items.forEach((it, i) => {
        if (it.k === 'hole') parts.push(ws(st))
        else if (it.k === 'spread') parts.push(ws(st) + '...' + pr(it.e, L_COND, st) + ws(st))
        else parts.push(ws(st) + pr(it.e, L_COND, st) + ws(st))
      })
      let body = parts.join(',')
      // a trailing hole needs its own comma (`[a,,]` has length 2); a trailing comma after a value is optional
      if (e.items.length && e.items[e.items.length - 1].k === 'hole') body += ','
      else if (e.items.length && st.rng && st.rng.bool(0.1)) body += ','
      s = '[' + body + ']'
      break
    }
    case 'obj': {
      const parts = e.fields.map((f) => {
        if (f.k === 'short') return ws(st) + f.name + ws(st)
        if (f.k === 'spread') return ws(st) + '...' + pr(f.e, L_COND, st) + ws(st)
        return ws(st) + f.name + ws(st) + ':' + ws(st) + pr(f.e, L_COND, st) + ws(st)
      })
      let body = parts.join(',')
      if (e.fields.length && st.rng && st.rng.bool(0.1)) body += ','
      s = '{' + body + '}'
      break
    }
    default:
      throw new Error('print: ' + e.t)
  }
  return wrapIf(need, s, st)
}

// `a ?.5 : b` would lex as optional chaining in JS; keep a space after `?` when a branch starts with '.'
function guardDot(s) {
  return s.startsWith('.') ? ' ' + s : s
}

export function printExpr(e, st = {}) {
  return pr(e, 0, st)
}

/** `{{ e }}` with safe brace spacing. */
export function printBinding(e, st = {}) {
  const s = printExpr(e, st)
  const rng = st.rng
  const lead = s.startsWith('{') || (rng && rng.bool(0.5)) ? ' ' : ''
  const trail = s.endsWith('}') || (rng && rng.bool(0.5)) ? ' ' : ''
  return '{{' + lead + s + trail + '}}'
}

/** Fully parenthesised plain-JS rendering (used in witnesses so that a human can read the meaning). */
export function printFull(e) {
  switch (e.t) {
    case 'id': return e.name
    case 'num': return e.raw
    case 'str': return JSON.stringify(e.v)
    case 'kw': return e.v
    case 'un': return `(${e.op} ${printFull(e.a)})`
    case 'bin': return `(${printFull(e.a)} ${e.op} ${printFull(e.b)})`
    case 'cond': return `(${printFull(e.c)} ? ${printFull(e.a)} : ${printFull(e.b)})`
    case 'mem': return `${printFull(e.o)}.${e.name}`
    case 'idx': return `${printFull(e.o)}[${printFull(e.i)}]`
    case 'call': return `${printFull(e.f)}(${e.args.map(printFull).join(', ')})`
    case 'arr': return `[${e.items.map((x) => (x.k === 'hole' ? '' : x.k === 'spread' ? '...' + printFull(x.e) : printFull(x.e))).join(', ')}${e.items.length && e.items[e.items.length - 1].k === 'hole' ? ',' : ''}]`
    case 'obj': return `{${e.fields.map((x) => (x.k === 'short' ? x.name : x.k === 'spread' ? '...' + printFull(x.e) : x.name + ': ' + printFull(x.e))).join(', ')}}`
  }
  throw new Error('printFull')
}

// ---- reference evaluation ----------------------------------------------------------------------

const numCache = new Map()
export function numValue(raw) {
  if (!numCache.has(raw)) {
    // the JS engine's own reading of the same literal text (sloppy mode, so that `017` is legacy octal)
    numCache.set(raw, new Function('return (' + raw + ')')())
  }
  return numCache.get(raw)
}

export class RefThrow extends Error {}

/** env.lookup(name) -> value. Property reads on null/undefined give undefined; calls are plain calls. */
export function evalExpr(e, env) {
  switch (e.t) {
    case 'id': return env.lookup(e.name)
    case 'num': return numValue(e.raw)
    case 'str': return e.v
    case 'kw': return e.v === 'true' ? true : e.v === 'false' ? false : e.v === 'null' ? null : undefined
    case 'un': {
      const a = evalExpr(e.a, env)
      switch (e.op) {
        case '!': return !a
        case '~': return ~a
        case '+': return +a
        case '-': return -a
        case 'typeof': return typeof a
        case 'void': return void a
      }
      break
    }
    case 'bin': {
      if (e.op === '&&') { const a = evalExpr(e.a, env); return a && evalExpr(e.b, env) }
      if (e.op === '||') { const a = evalExpr(e.a, env); return a || evalExpr(e.b, env) }
      if (e.op === '??') { const a = evalExpr(e.a, env); return a ?? evalExpr(e.b, env) }
      const a = evalExpr(e.a, env)
      const b = evalExpr(e.b, env)
      switch (e.op) {
        case '*': return a * b
        case '/': return a / b
        case '%': return a % b
        case '+': return a + b
        case '-': return a - b
        case '<<': return a << b
        case '>>': return a >> b
        case '>>>': return a >>> b
        case '<': return a < b
        case '>': return a > b
        case '<=': return a <= b
        case '>=': return a >= b
        case 'instanceof': return a instanceof b
        // eslint-disable-next-line eqeqeq
        case '==': return a == b
        // eslint-disable-next-line eqeqeq
        case '!=': return a != b
        case '===': return a === b
        case '!==': return a !== b
        case '&': return a & b
        case '^': return a ^ b
        case '|': return a | b
      }
      break
    }
    case 'cond': return evalExpr(e.c, env) ? evalExpr(e.a, env) : evalExpr(e.b, env)
    case 'mem': { const o = evalExpr(e.o, env); return o === null || o === undefined ? undefined : o[e.name] }
    case 'idx': {
      // operand order as in JS: object first, then the key
      const o = evalExpr(e.o, env)
      const k = evalExpr(e.i, env)
      return o === null || o === undefined ? undefined : o[k]
    }
    case 'call': {
      const f = evalExpr(e.f, env)
      const args = e.args.map((a) => evalExpr(a, env))
      return typeof f === 'function' ? f(...args) : undefined
    }
    case 'arr': {
      const out = []
      let n = 0
      for (const it of e.items) {
        if (it.k === 'hole') n += 1
        else if (it.k === 'spread') {
          const v = evalExpr(it.e, env)
          // (what JavaScript iterates: arrays - their holes read as undefined - and strings, by code point)
          if (!Array.isArray(v) && typeof v !== 'string') throw new RefThrow('array spread of a value that is neither an array nor a string is outside the property')
          for (const x of v) { out[n] = x; n += 1 }
        } else { out[n] = evalExpr(it.e, env); n += 1 }
      }
      out.length = n
      return out
    }
    case 'obj': {
      const out = {}
      for (const f of e.fields) {
        if (f.k === 'short') out[f.name] = env.lookup(f.name)
        else if (f.k === 'spread') {
          const v = evalExpr(f.e, env)
          if (typeof v === 'string' || typeof v === 'function') throw new RefThrow('object spread of a string/function is not generated')
          Object.assign(out, v)
        } else out[f.name] = evalExpr(f.e, env)
      }
      return out
    }
  }
  throw new Error('eval: ' + e.t + ' ' + e.op)
}

// ---- comparing delivered values ----------------------------------------------------------------

/** `signedZero: false` makes 0 and -0 the same value: the runtime detects changes with `!==`, so an update from 0 to -0
 *  is (deliberately) not an update; used by the checks that compare an updated instance with a fresh one. */
export const sameOptions = { signedZero: true }
export function same(a, b, seen = new Map()) {
  if (Object.is(a, b)) return true
  if (!sameOptions.signedZero && a === 0 && b === 0) return true
  if (typeof a !== typeof b) return false
  if (typeof a !== 'object' || a === null || b === null) return false
  if (seen.get(a) === b) return true
  seen.set(a, b)
  if (Array.isArray(a) !== Array.isArray(b)) return false
  if (Array.isArray(a)) {
    if (a.length !== b.length) return false
    for (let i = 0; i < a.length; i++) if (!same(a[i], b[i], seen)) return false // holes == undefined
    return true
  }
  const ka = Object.keys(a)
  const kb = Object.keys(b)
  if (ka.length !== kb.length) return false
  for (const k of ka) {
    if (!Object.prototype.hasOwnProperty.call(b, k)) return false
    if (!same(a[k], b[k], seen)) return false
  }
  return true
}

export function show(v, depth = 0) {
  if (typeof v === 'string') return JSON.stringify(v).replace(/[\u007f-\u00a0\u00ad\u2000-\u200f\u2028\u2029\ufeff]/g, (c) => '\\u' + c.charCodeAt(0).toString(16).padStart(4, '0'))
  if (typeof v === 'number') return Object.is(v, -0) ? '-0' : String(v)
  if (typeof v === 'function') return `[Function ${v.name || 'anonymous'}]`
  if (v === undefined) return 'undefined'
  if (v === null) return 'null'
  if (typeof v !== 'object') return String(v)
  if (depth > 4) return '…'
  if (Array.isArray(v)) {
    const parts = []
    for (let i = 0; i < v.length; i++) parts.push(i in v ? show(v[i], depth + 1) : '<hole>')
    return '[' + parts.join(', ') + ']'
  }
  return '{' + Object.keys(v).map((k) => k + ': ' + show(v[k], depth + 1)).join(', ') + '}'
}

// ---- generation --------------------------------------------------------------------------------

export const NUM_POOL = ['0', '1', '2', '3', '7', '10', '255', '0.5', '.25', '5.', '1e3', '1e-2', '0x1f', '0xFF', '017', '08', '1.5e2', '4294967296', '2147483648', '9007199254740993', '0.1', '100', '1e+5', '1E5', '0XFF', '2.5E-3', '7E+0']
export const STR_POOL = ['', 'a', 'b', '0', '1', 'x y', "it's", 'q"q', 'back\\slash', 'nl\nx', 'tab\tx', 'é', '漢', '😀', 'length', 'a-b', '  ', '</wxs>', '{{', '}}']
export const KW_POOL = ['true', 'false', 'null', 'undefined']

export function genLeaf(rng, ctx) {
  const r = rng.int(100)
  if (r < 55) return id(rng.pick(ctx.names))
  if (r < 75) return num(rng.pick(ctx.nums || NUM_POOL))
  if (r < 90) return str(rng.pick(ctx.strs || STR_POOL))
  return kw(rng.pick(KW_POOL))
}

export function genExpr(rng, depth, ctx) {
  if (depth <= 0 || rng.bool(0.12)) return genLeaf(rng, ctx)
  const kind = rng.weighted([
    ['bin', 40], ['un', 10], ['cond', 8], ['mem', 10], ['idx', 7], ['call', ctx.noCall ? 0 : 6], ['arr', 7], ['obj', 6],
  ])
  const sub = () => genExpr(rng, depth - 1, ctx)
  switch (kind) {
    case 'bin': {
      const op = rng.pick(BINARY)[0]
      if (op === 'instanceof') {
        // the right operand must be callable wherever the expression is evaluated (anything else throws in JS)
        if (ctx.ctors === null) return bin('<', sub(), sub())
        return bin(op, sub(), id(rng.pick(ctx.ctors || ['Ctor'])))
      }
      return bin(op, sub(), sub())
    }
    case 'un': return un(rng.pick(UNARY), sub())
    case 'cond': return cond(sub(), sub(), sub())
    case 'mem': return mem(sub(), rng.pick(ctx.fields || ['x', 'y', 'length', 'f', 'k0']))
    case 'idx': return idx(sub(), rng.bool(0.5) ? rng.pick([num('0'), num('1'), str('x'), str('length')]) : sub())
    case 'call': {
      const n = rng.int(3)
      const f = rng.bool(0.7) ? id(rng.pick(ctx.fns || ['fn'])) : mem(sub(), 'f')
      return call(f, Array.from({ length: n }, sub))
    }
    case 'arr': {
      const n = rng.int(4)
      const items = []
      for (let i = 0; i < n; i++) {
        const r = rng.int(10)
        if (r < 2) { items.push({ k: 'hole' }); while (rng.bool(0.35) && items.length < 6) items.push({ k: 'hole' }) } // runs of holes
        else if (r < 4) items.push({ k: 'spread', e: rng.bool(0.6) ? id(rng.pick(ctx.arrays || ['arr'])) : rng.bool(0.3) ? str(rng.pick(['ab', '', '\u{1F600}x', 'a b'])) : arr(rng.bool(0.4) ? [{ k: 'hole' }, { k: 'v', e: sub() }, { k: 'hole' }, { k: 'v', e: sub() }] : [{ k: 'v', e: sub() }]) })
        else items.push({ k: 'v', e: sub() })
      }
      return arr(items)
    }
    case 'obj': {
      const n = rng.int(4)
      const fields = []
      for (let i = 0; i < n; i++) {
        const r = rng.int(10)
        if (r < 2) fields.push({ k: 'short', name: rng.pick(ctx.names) })
        else if (r < 4) fields.push({ k: 'spread', e: rng.bool(0.7) ? id(rng.pick(ctx.objects || ['ob'])) : sub() })
        else fields.push({ k: 'kv', name: rng.pick(['x', 'y', 'k0', 'a', 'length']), e: sub() })
      }
      return obj(fields)
    }
  }
  throw new Error('gen')
}

/** Every (outer operator, operand position, inner operator) combination at depth 2, leaves from `leaf()`. */
export function* enumDepth2(leafOf) {
  const forms = []
  for (const [op] of BINARY) {
    // the right operand of instanceof must be callable (anything else throws in JavaScript)
    if (op === 'instanceof') forms.push({ n: 1, mk: (xs) => bin(op, xs[0], id('Ctor')), tag: op })
    else forms.push({ n: 2, mk: (xs) => bin(op, xs[0], xs[1]), tag: op })
  }
  for (const op of UNARY) forms.push({ n: 1, mk: (xs) => un(op, xs[0]), tag: 'u' + op })
  forms.push({ n: 3, mk: (xs) => cond(xs[0], xs[1], xs[2]), tag: '?:' })
  forms.push({ n: 1, mk: (xs) => mem(xs[0], 'x'), tag: '.x' })
  forms.push({ n: 2, mk: (xs) => idx(xs[0], xs[1]), tag: '[]' })
  forms.push({ n: 2, mk: (xs) => call(xs[0], [xs[1]]), tag: '()' })
  forms.push({ n: 2, mk: (xs) => arr([{ k: 'v', e: xs[0] }, { k: 'hole' }, { k: 'v', e: xs[1] }]), tag: '[,]' })
  forms.push({ n: 2, mk: (xs) => arr([{ k: 'hole' }, { k: 'spread', e: arr([{ k: 'v', e: xs[0] }]) }, { k: 'v', e: xs[1] }]), tag: '[...]' })
  forms.push({ n: 2, mk: (xs) => arr([{ k: 'spread', e: xs[0] }, { k: 'spread', e: arr([{ k: 'hole' }, { k: 'v', e: xs[1] }]) }]), tag: '[...x]' })
  forms.push({ n: 2, mk: (xs) => arr([{ k: 'hole' }, { k: 'hole' }, { k: 'v', e: xs[0] }, { k: 'hole' }, { k: 'hole' }, { k: 'hole' }, { k: 'v', e: xs[1] }, { k: 'hole' }]), tag: '[,,]' })
  forms.push({ n: 2, mk: (xs) => obj([{ k: 'kv', name: 'x', e: xs[0] }, { k: 'spread', e: obj([{ k: 'kv', name: 'y', e: xs[1] }]) }]), tag: '{...}' })
  let k = 0
  for (const outer of forms) {
    for (let pos = 0; pos < outer.n; pos++) {
      for (const inner of forms) {
        const innerE = inner.mk(Array.from({ length: inner.n }, () => leafOf(k++)))
        const xs = Array.from({ length: outer.n }, (_, i) => (i === pos ? innerE : leafOf(k++)))
        yield { e: outer.mk(xs), tag: `${outer.tag}@${pos}<${inner.tag}` }
      }
    }
  }
}
