// Entry point of one shard of one JS-side check.
//   node worker.mjs <PID> --tier quick|thorough --seed N --shard i --nshards n --out file.json [--replay file]
import fs from 'node:fs'
import path from 'node:path'
import { Rng, fnv } from './prng.mjs'
import { loadRuntime, runtimeInfo, VERIF } from './rt.mjs'

const args = process.argv.slice(2)
const pid = args[0]
const opt = (k, d) => {
  const i = args.indexOf('--' + k)
  return i >= 0 ? args[i + 1] : d
}
const tier = opt('tier', 'quick')
const seed = Number(opt('seed', '0'))
const shard = Number(opt('shard', '0'))
const nshards = Number(opt('nshards', '1'))
const out = opt('out', null)
const replay = opt('replay', null)

class Report {
  constructor() {
    this.evaluations = 0
    this.shapes = new Set()
    this.samples = []
    this.violations = []
    this.known = {}
    this.inconclusive = []
    this.counts = {}
    this.matrices = {}
    this.notes = []
  }
  evals(n = 1) { this.evaluations += n }
  shape(s) { this.shapes.add(fnv(String(s))) }
  sample(s, cap = 4) { if (this.samples.length < cap) this.samples.push(s) }
  violation(summary, witness) { if (this.violations.length < 25) this.violations.push({ summary, witness }); else this.count('violations_not_recorded') }
  knownHit(finding, text) { this.known[finding] = this.known[finding] || { n: 0, text }; this.known[finding].n += 1 }
  inconc(reason) { if (this.inconclusive.length < 20) this.inconclusive.push(reason); this.count('inconclusive') }
  count(k, n = 1) { this.counts[k] = (this.counts[k] || 0) + n }
  cell(matrix, row, col, n = 1) {
    const m = (this.matrices[matrix] = this.matrices[matrix] || {})
    const key = row + '|' + col
    m[key] = (m[key] || 0) + n
  }
}

const report = new Report()
// the runtime reports its warnings on the console as well; they are collected through the warning listener instead
const realLog = console.log.bind(console)
console.log = console.warn = console.error = console.info = () => {}
const t0 = Date.now()
let exitCode = 0
try {
  const mod = await import(`./props/${pid}.mjs`)
  const ge = mod.needsRuntime === false ? null : await loadRuntime()
  const ctx = { pid, tier, seed, shard, nshards, rng: new Rng(seed * 7919 + shard * 104729 + 17), ge, report, replay: replay ? JSON.parse(fs.readFileSync(replay, 'utf8')) : null, VERIF }
  if (ctx.replay && mod.replay) await mod.replay(ctx)
  else await mod.run(ctx)
  report.runtime = runtimeInfo
  report.rule = mod.rule || ''
  report.assumptions = mod.assumptions || []
  report.exhaustive = mod.exhaustive ? mod.exhaustive(ctx) : undefined
} catch (e) {
  report.harnessError = String(e && e.stack ? e.stack : e)
  exitCode = 2
}
const res = {
  pid, tier, seed, shard, nshards,
  evaluations: report.evaluations,
  shapes: [...report.shapes],
  samples: report.samples,
  violations: report.violations,
  known: report.known,
  inconclusive: report.inconclusive,
  counts: report.counts,
  matrices: report.matrices,
  notes: report.notes,
  runtime: report.runtime,
  rule: report.rule,
  assumptions: report.assumptions,
  exhaustive: report.exhaustive,
  harnessError: report.harnessError,
  wall_s: (Date.now() - t0) / 1000,
}
const text = JSON.stringify(res, (k, v) => (typeof v === 'function' ? `[Function ${v.name}]` : v === undefined ? null : typeof v === 'number' && !Number.isFinite(v) ? String(v) : typeof v === 'bigint' ? String(v) : v))
if (out) fs.writeFileSync(out, text)
else realLog(text)
process.exit(exitCode)
