// Builds a plain-ESM copy of the *real* glass-easel runtime (glass-easel/src/**/*.ts of the working
// tree) by type-stripping (Node >= 22.13 `module.stripTypeScriptTypes`, transform mode) and post-processing
// what a per-file stripper cannot know (see DESIGN.md, E2):
//  (i)   const-enum members are inlined, (ii) imports unused after stripping are elided,
//  (iii) re-exports of type-only names are filtered, (iv) declaration-only class fields are dropped,
//  (v)   relative specifiers are rewritten to .mjs files.
// Usage: node build_runtime.mjs <src dir> <out dir>
import { stripTypeScriptTypes } from 'node:module'
import fs from 'node:fs'
import path from 'node:path'
import crypto from 'node:crypto'

function walk(d, out = []) {
  for (const e of fs.readdirSync(d, { withFileTypes: true })) {
    const p = path.join(d, e.name)
    if (e.isDirectory()) walk(p, out)
    else if (p.endsWith('.ts') && !p.endsWith('.d.ts')) out.push(p)
  }
  return out.sort()
}

export function sourceHash(srcRoot) {
  const h = crypto.createHash('sha256')
  for (const f of walk(srcRoot)) {
    h.update(path.relative(srcRoot, f))
    h.update('\0')
    h.update(fs.readFileSync(f))
    h.update('\0')
  }
  return h.digest('hex')
}

function resolveFile(base, specifier) {
  const p = path.resolve(base, specifier)
  for (const cand of [p + '.ts', path.join(p, 'index.ts'), p]) {
    if (fs.existsSync(cand) && fs.statSync(cand).isFile()) return cand
  }
  return null
}

export function build(srcRoot, outDir) {
  if (typeof stripTypeScriptTypes !== 'function') throw new Error('this Node has no module.stripTypeScriptTypes')
  const files = walk(srcRoot)
  // (i) const enums
  const constEnums = new Map()
  for (const f of files) {
    const src = fs.readFileSync(f, 'utf8')
    for (const m of src.matchAll(/(?:export\s+)?const\s+enum\s+([A-Za-z_$][\w$]*)\s*\{([^}]*)\}/g)) {
      const members = new Map()
      let next = 0
      const body = m[2].replace(/\/\/[^\n]*/g, '').replace(/\/\*[\s\S]*?\*\//g, '')
      for (const part of body.split(',')) {
        const t = part.trim()
        if (!t) continue
        const mm = t.match(/^([A-Za-z_$][\w$]*)\s*(?:=\s*(.+))?$/s)
        if (!mm) throw new Error('cannot parse const enum member in ' + f + ': ' + t)
        let v
        if (mm[2] !== undefined) {
          v = mm[2].trim()
          if (/^-?\d+$/.test(v)) next = Number(v) + 1
          else next = NaN
        } else {
          if (Number.isNaN(next)) throw new Error('const enum member without initializer after a non-numeric one: ' + f)
          v = String(next)
          next += 1
        }
        members.set(mm[1], v)
      }
      constEnums.set(m[1], { file: f, members })
    }
  }
  const inlineConstEnums = (file, src) => {
    for (const [name, { members }] of constEnums) {
      src = src.replace(new RegExp('(^|[^\\w$.])' + name + '\\.([A-Za-z_$][\\w$]*)', 'g'), (all, pre, mem) =>
        members.has(mem) ? `${pre}(${members.get(mem)})` : all,
      )
    }
    return src
  }
  const cache = new Map()
  const stripped = (file) => {
    if (!cache.has(file)) {
      let s = stripTypeScriptTypes(fs.readFileSync(file, 'utf8'), { mode: 'transform' })
      s = inlineConstEnums(file, s)
      // (iv) declaration-only class fields (`name!: T` leaves `name;` after stripping). With the repo's
      // `target: es6` they have no runtime effect, whereas ES2022 field semantics would define them.
      s = s.replace(/^([ \t]+)(?:static\s+)?(\[[^\]\n]+\]|[A-Za-z_$][\w$]*);[ \t]*$/gm, (all, ind, name) =>
        /^(return|break|continue|debugger|yield|await|super|this|null|true|false|undefined)$/.test(name) ? all : `${ind}/* field decl removed */`,
      )
      cache.set(file, s)
    }
    return cache.get(file)
  }
  const exportsCache = new Map()
  const valueExports = (file, seen = new Set()) => {
    if (exportsCache.has(file)) return exportsCache.get(file)
    if (seen.has(file)) return new Set()
    seen.add(file)
    const src = stripped(file)
    const out = new Set()
    for (const m of src.matchAll(/export\s+(?:default\s+)?(?:async\s+)?(?:const|let|var|function\*?|class)\s+([A-Za-z_$][\w$]*)/g)) out.add(m[1])
    for (const m of src.matchAll(/export\s*\{([^}]*)\}\s*(?:from\s*['"]([^'"]+)['"])?/g)) {
      const names = m[1].split(',').map((s) => s.trim()).filter(Boolean)
      let targetExports = null
      if (m[2] && m[2].startsWith('.')) {
        const t = resolveFile(path.dirname(file), m[2])
        if (t) targetExports = valueExports(t, seen)
      }
      for (const n of names) {
        const parts = n.split(/\s+as\s+/)
        if (targetExports && !targetExports.has(parts[0]) && parts[0] !== 'default') continue
        out.add(parts[1] || parts[0])
      }
    }
    for (const m of src.matchAll(/export\s*\*\s*from\s*['"]([^'"]+)['"]/g)) {
      const t = resolveFile(path.dirname(file), m[1])
      if (t) for (const n of valueExports(t, seen)) out.add(n)
    }
    for (const m of src.matchAll(/export\s*\*\s*as\s+([A-Za-z_$][\w$]*)\s*from/g)) out.add(m[1])
    exportsCache.set(file, out)
    return out
  }
  const fixup = (file) => {
    let src = stripped(file)
    const bodyNoImports = src.replace(/^import[^;]*?from\s*['"][^'"]+['"];?$/gms, '')
    src = src.replace(/(import|export)\s*\{([^}]*)\}\s*from\s*(['"])([^'"]+)\3/g, (all, kw, names, q, spec) => {
      if (!spec.startsWith('.')) return all
      const t = resolveFile(path.dirname(file), spec)
      if (!t) return all
      const ex = valueExports(t)
      let kept = names.split(',').map((s) => s.trim()).filter(Boolean).filter((n) => ex.has(n.split(/\s+as\s+/)[0]))
      if (kw === 'import')
        kept = kept.filter((n) => {
          const parts = n.split(/\s+as\s+/)
          const local = parts[1] || parts[0]
          const re = new RegExp('(^|[^\\w$.])' + local.replace(/\$/g, '\\$') + '(?![\\w$])')
          return re.test(bodyNoImports)
        })
      if (kept.length === 0) return ''
      return `${kw} { ${kept.join(', ')} } from ${q}${spec}${q}`
    })
    // (ii, cont.) imports that became bare side-effect imports only because every binding was a type:
    // tsc elides them entirely; keep only the bare imports that the source itself wrote.
    const original = fs.readFileSync(file, 'utf8')
    src = src.replace(/^import\s*(['"])(\.[^'"]*)\1;?[ \t]*$/gm, (all, q, spec) => {
      const genuine = new RegExp('^import\\s*[\'"]' + spec.replace(/[.*+?^${}()|[\]\\]/g, '\\$&') + '[\'"]', 'm').test(original)
      return genuine ? all : ''
    })
    // (v) specifiers
    src = src.replace(/(from\s*|import\s*\(\s*|import\s+)(['"])(\.[^'"]*)\2/g, (all, pre, q, spec) => {
      const target = resolveFile(path.dirname(file), spec)
      if (!target) return all
      let rel = path.relative(path.dirname(file), target).replace(/\.ts$/, '.mjs')
      if (!rel.startsWith('.')) rel = './' + rel
      return `${pre}${q}${rel}${q}`
    })
    return src
  }
  fs.rmSync(outDir, { recursive: true, force: true })
  for (const f of files) {
    const dest = path.join(outDir, path.relative(srcRoot, f)).replace(/\.ts$/, '.mjs')
    fs.mkdirSync(path.dirname(dest), { recursive: true })
    fs.writeFileSync(dest, fixup(f))
  }
  fs.writeFileSync(path.join(outDir, 'SOURCE_SHA256'), sourceHash(srcRoot) + '\n')
  return files.length
}

if (import.meta.url === `file://${process.argv[1]}`) {
  const [src, out] = process.argv.slice(2)
  const n = build(src, out)
  console.log(`built ${n} modules into ${out}`)
}
