// Edge-value pool and data environments shared by the drivers.
export function Ctor() { this.tag = 'inst' }
export function fn(...args) { return 'fn(' + (typeof this) + ';' + args.map((a) => (a === null ? 'null' : typeof a === 'object' ? (Array.isArray(a) ? 'arr' + a.length : 'obj') : String(a))).join(',') + ')' }
export function fn2(a, b) { return a === undefined ? b : a }

export const EDGE = [
  () => 0, () => -0, () => 1, () => -1, () => 2, () => 3, () => 7, () => 2 ** 31, () => -(2 ** 31) - 1, () => 2 ** 32 + 1, () => 2 ** 53 + 2, () => 0.5, () => -1.5,
  () => NaN, () => Infinity, () => -Infinity,
  () => '', () => '0', () => '1', () => 'a', () => 'b', () => ' 12 ', () => 'x', () => 'length',
  () => null, () => undefined, () => true, () => false,
  () => [], () => [1, 2], () => [, 1], () => ['a', ['b']], () => [0],
  () => ({}), () => ({ x: 1 }), () => ({ x: { y: 2, f: fn }, length: 3, k0: 'v0' }), () => ({ y: null, f: fn2 }),
  () => fn, () => new Ctor(),
]

export function edgeValue(rng) {
  return rng.pick(EDGE)()
}

// without numbers that would make `wx:for` iterate millions of times (used where no reference pre-pass filters)
export const EDGE_SMALL = EDGE.filter((f) => { const v = f(); return typeof v !== 'number' || !(Math.abs(v) > 100) })
export function edgeValueSmall(rng) {
  return rng.pick(EDGE_SMALL)()
}

/** A data environment for expression leaves a..f plus typed helpers. */
export function makeEnv(rng, names) {
  const D = {}
  for (const n of names) D[n] = edgeValue(rng)
  D.arr = rng.pick([() => [1, 2, 3], () => [], () => [, 'h', undefined], () => [[1], { x: 2 }]])()
  D.ob = rng.pick([() => ({ x: 1, y: 2 }), () => ({}), () => null, () => undefined, () => ({ x: { x: 5 }, k0: [1] })])()
  D.fn = fn
  D.Ctor = Ctor
  return D
}

export function envLookup(D) {
  return { lookup: (name) => D[name] }
}
