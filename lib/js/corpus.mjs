// Prints generated WXML templates (documented syntax, full spelling variation) as JSONL for the Python-side
// checks (C01): node corpus.mjs <seed> <n>
import { genFileSet, printFileSet } from './gen.mjs'
import { Rng } from './prng.mjs'
const seed = Number(process.argv[2] || 0)
const n = Number(process.argv[3] || 100)
const rng = new Rng(seed * 2654435761 + 99)
let out = ''
for (let i = 0; i < n; i++) {
  const r = new Rng(rng.u32())
  const fs_ = genFileSet(r, { withModule: r.bool(0.4), maxDepth: r.pick([1, 2, 3]) })
  const st = { rng: r, spacing: r.bool(0.5), redundant: r.bool(0.3) ? 0.15 : 0, entities: r.bool(0.5) ? 0.2 : 0, layout: r.bool(0.5), between: true, shuffleAttrs: true, unquoted: true }
  let sources
  try { sources = printFileSet(fs_, st) } catch (e) { continue }
  for (const [p, s] of sources) out += JSON.stringify({ path: p, src: s }) + '\n'
}
process.stdout.write(out)
