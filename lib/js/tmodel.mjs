// E3 (part 1): abstract templates, their WXML printer (with syntactic variation) and the generator.
// The generator never starts from text; the same abstract template yields the concrete WXML (for the
// SUT) and, through ref.mjs, the reference meaning.
import * as X from './expr.mjs'

// ---- values -------------------------------------------------------------------------------------
// Value = { parts: [ {s: string} | {e: Expr} ] }
export const sv = (s) => ({ parts: s === '' ? [] : [{ s }] })
export const ev = (e) => ({ parts: [{ e }] })
export const mv = (...parts) => ({ parts: parts.filter((p) => p !== '').map((p) => (typeof p === 'string' ? { s: p } : { e: p })) })
export const isStatic = (v) => v.parts.every((p) => 's' in p)
export const isSingle = (v) => v.parts.length === 1 && 'e' in v.parts[0]
export const staticText = (v) => v.parts.map((p) => p.s).join('')
export const valueExprs = (v) => v.parts.filter((p) => 'e' in p).map((p) => p.e)

export const EVENT_FAMS = ['bind', 'catch', 'mut-bind', 'capture-bind', 'capture-catch', 'capture-mut-bind']
export const FAMILIES = ['plain', 'class', 'style', 'id', 'slot', 'data-', 'data:', 'mark', ...EVENT_FAMS, 'model', 'change', 'worklet', 'generic', 'extra-attr']

// ---- printing -------------------------------------------------------------------------------------

const NAMED_ENT = { '<': '&lt;', '>': '&gt;', '&': '&amp;', '"': '&quot;', "'": '&apos;', '\u00a0': '&nbsp;', '\u00a9': '&copy;', '{': '&lbrace;', '}': '&rbrace;' }

function entity(ch, rng) {
  const cp = ch.codePointAt(0)
  const r = rng ? rng.int(3) : 0
  if (r === 0 && NAMED_ENT[ch]) return NAMED_ENT[ch]
  if (r === 1) return '&#' + cp + ';'
  const h = cp.toString(16)
  return '&#x' + (rng && rng.bool(0.4) ? h.toUpperCase() : h) + ';'
}

/** Spell a decoded static string for text (`quote === null`) or for an attribute value quoted with `quote`. */
export function spellStatic(s, quote, st, beforeBinding = false) {
  const rng = st.rng
  const cps = Array.from(s)
  let out = ''
  for (let i = 0; i < cps.length; i++) {
    const ch = cps[i]
    const next = i + 1 < cps.length ? cps[i + 1] : beforeBinding ? '{' : undefined
    let must = false
    if (ch === '&') must = true // could start an entity
    else if (ch === '{' && (next === '{' || out.endsWith('{'))) must = true // `{{` would open a binding
    else if (quote === null && ch === '<' && next !== undefined && /[A-Za-z_/!]/.test(next)) must = true
    else if (quote === null && ch === '<' && next === undefined) must = true // whatever follows the text node
    else if (quote !== null && ch === quote) must = true
    if (must || (rng && st.entities && rng.bool(st.entities))) out += entity(ch, rng)
    else out += ch
  }
  return out
}

export function printValue(v, quote, st) {
  let out = ''
  v.parts.forEach((p, i) => {
    if ('s' in p) out += spellStatic(p.s, quote, st, i + 1 < v.parts.length && 'e' in v.parts[i + 1])
    else out += X.printBinding(p.e, { ...st, quote: undefined })
  })
  return out
}

function attrText(name, v, st) {
  if (v === null || v === undefined) return name
  const rng = st.rng
  const quote = rng && rng.bool(0.25) ? "'" : '"'
  // an unquoted `a={{x}}` is accepted for a value that is exactly one binding
  if (isSingle(v) && rng && st.unquoted && rng.bool(0.1)) return name + '=' + X.printBinding(v.parts[0].e, st)
  return name + '=' + quote + printValue(v, quote, st) + quote
}

function famPrefix(fam) {
  switch (fam) {
    case 'plain': case 'class': case 'style': case 'id': case 'slot': return ''
    case 'data-': return 'data-'
    case 'data:': return 'data:'
    default: return fam + ':'
  }
}

export function attrSourceName(a) {
  if (a.fam === 'class' || a.fam === 'style' || a.fam === 'id' || a.fam === 'slot') return a.fam
  return famPrefix(a.fam) + a.name
}

function sp(st, must) {
  const rng = st.rng
  if (!rng || !st.layout) return must ? ' ' : ''
  const r = rng.int(14)
  if (r < 6) return must ? ' ' : ''
  if (r < 8) return ' '
  if (r === 8) return '\n  '
  if (r === 9) return '\t'
  // every HTML whitespace character separates attributes: CR LF, a lone CR, form feed
  if (r === 10) return '\r\n'
  if (r === 11) return '\r'
  if (r === 12) return '\f'
  return ' \r\n\t'
}

function ctlAttrs(ctl, st) {
  const out = []
  if (!ctl) return out
  if (ctl.for) {
    out.push(attrText('wx:for', ctl.for.list, st))
    if (ctl.for.item !== undefined) out.push(`wx:for-item="${ctl.for.item}"`)
    if (ctl.for.index !== undefined) out.push(`wx:for-index="${ctl.for.index}"`)
    if (ctl.for.key !== undefined) out.push(`wx:key="${spellStatic(ctl.for.key, '"', st)}"`)
  }
  if (ctl.if) out.push(attrText('wx:if', ctl.if, st))
  if (ctl.elif) out.push(attrText('wx:elif', ctl.elif, st))
  if (ctl.else) out.push('wx:else')
  return out
}

function printTag(tag, attrs, children, st, selfCloseOk = true) {
  const rng = st.rng
  let list = attrs
  if (rng && st.shuffleAttrs) list = rng.shuffle(attrs)
  let s = '<' + tag
  for (const a of list) s += sp(st, true) + a
  if (children === null || (children.length === 0 && selfCloseOk && (!rng || rng.bool(0.7)))) return s + sp(st) + '/>'
  s += sp(st) + '>'
  s += printNodes(children, st)
  s += '</' + tag + sp(st) + '>'
  return s
}

function slotValAttrs(node) {
  return (node.slotVals || []).map((sv_) => (sv_.as === undefined ? `slot:${sv_.name}` : `slot:${sv_.name}="${sv_.as}"`))
}

function printHoisted(f, key, st) {
  const [kind, i] = key.split(':')
  if (kind === 'import') return `<import src="${spellStatic(f.imports[+i], '"', st)}"${st.rng && st.rng.bool(0.3) ? '></import>' : '/>'}`
  if (kind === 'wxs') {
    const w = f.wxs[+i]
    return w.src !== undefined ? `<wxs module="${w.module}" src="${spellStatic(w.src, '"', st)}"/>` : `<wxs module="${w.module}">${w.code}</wxs>`
  }
  const d = f.defs[+i]
  return `<template name="${spellStatic(d.name, '"', st)}">${printNodes(d.children, st)}</template>`
}

export function printNode(n, st, ctl) {
  switch (n.t) {
    case 'text': return printValue(n.v, null, st)
    case 'comment': return '<!--' + n.s + '-->'
    // an <import> / <wxs> / <template name> written between other nodes: it renders nothing here (it belongs to the file)
    case 'hoist': return printHoisted(st.file, n.key, st)
    case 'el': {
      const attrs = [...ctlAttrs(ctl, st), ...slotValAttrs(n), ...n.attrs.map((a) => attrText(attrSourceName(a), a.value, st))]
      return printTag(n.tag, attrs, n.children, st)
    }
    case 'block': {
      const attrs = [...ctlAttrs(ctl, st), ...slotValAttrs(n)]
      if (n.slotAttr) attrs.push(attrText('slot', n.slotAttr, st))
      return printTag('block', attrs, n.children, st)
    }
    case 'tref': {
      const attrs = [...ctlAttrs(ctl, st), attrText('is', n.is, st)]
      if (n.data) attrs.push('data="' + printDataBinding(n.data, st) + '"')
      return printTag('template', attrs, [], st)
    }
    case 'include': return printTag('include', [...ctlAttrs(ctl, st), `src="${spellStatic(n.src, '"', st)}"`], [], st)
    case 'slot': {
      const attrs = [...ctlAttrs(ctl, st), ...slotValAttrs(n)]
      if (n.name) attrs.push(attrText('name', n.name, st))
      for (const a of n.attrs || []) attrs.push(attrText(attrSourceName(a), a.value, st))
      return printTag('slot', attrs, [], st)
    }
    case 'if': {
      let s = ''
      n.branches.forEach((b, i) => {
        if (i > 0 && st.rng && st.between) s += st.rng.pick(['', ' ', '\n', '<!-- c -->', ' <!--x--> ', '\r\n', '\r\n\t', '\f'])
        s += printNode(b.node, st, i === 0 ? { if: b.cond } : { elif: b.cond })
      })
      if (n.els) {
        if (st.rng && st.between) s += st.rng.pick(['', ' ', '\n', '<!-- c -->', '\r\n', '\r'])
        s += printNode(n.els, st, { else: true })
      }
      return s
    }
    case 'for': {
      const c = { for: { list: n.list, item: n.item, index: n.index, key: n.key } }
      if (n.cond) c.if = n.cond
      return printNode(n.node, st, c)
    }
    case 'raw': return n.wxml
  }
  throw new Error('printNode ' + n.t)
}

/** `data="{{ ... }}"`: an object expression printed as object-inner (`a, b: c`) or as a braced literal. */
export function printDataBinding(e, st) {
  if (e.t === 'obj' && e.fields.length > 0 && (!st.rng || st.rng.bool(0.7))) {
    const inner = X.printExpr(e, { ...st, quote: "'" })
    return '{{' + inner.slice(1, -1) + ' }}'
  }
  return X.printBinding(e, { ...st, quote: "'" })
}

export function printNodes(nodes, st) {
  let s = ''
  let prevText = false
  for (const n of nodes) {
    // two adjacent text nodes would fuse into one in WXML: a comment keeps them apart (they stay two nodes)
    if (n.t === 'text' && prevText) s += st.rng && st.rng.bool(0.3) ? '<!---->' : '<!-- sep -->'
    prevText = n.t === 'text'
    s += printNode(n, st)
  }
  return s
}

export function printFile(f, st) {
  let s = ''
  const scattered = f.scattered || new Set()
  const prevFile = st.file
  st.file = f
  ;(f.imports || []).forEach((_, i) => { if (!scattered.has('import:' + i)) s += printHoisted(f, 'import:' + i, st) })
  ;(f.wxs || []).forEach((_, i) => { if (!scattered.has('wxs:' + i)) s += printHoisted(f, 'wxs:' + i, st) })
  ;(f.defs || []).forEach((_, i) => { if (!scattered.has('def:' + i)) s += printHoisted(f, 'def:' + i, st) })
  s += printNodes(f.children, st)
  st.file = prevFile
  return s
}

/** Move some of the file-level elements (<wxs>, <template name>, <import>) of `f` between its top-level nodes,
 *  sometimes sandwiched between two static text nodes (which must stay two nodes). */
export function scatterHoisted(rng, f) {
  const keys = []
  ;(f.imports || []).forEach((_, i) => keys.push('import:' + i))
  ;(f.wxs || []).forEach((_, i) => keys.push('wxs:' + i))
  ;(f.defs || []).forEach((_, i) => keys.push('def:' + i))
  f.scattered = new Set()
  for (const key of keys) {
    if (!rng.bool(0.6)) continue
    f.scattered.add(key)
    const p = rng.int(f.children.length + 1)
    const before = f.children[p - 1], after = f.children[p]
    const free = (n) => !n || (n.t !== 'text' && n.t !== 'comment')
    if (rng.bool(0.5) && free(before) && free(after)) f.children.splice(p, 0, { t: 'text', v: sv(rng.pick(['a', '{', 'x {', '&'])) }, { t: 'hoist', key }, { t: 'text', v: sv(rng.pick(['b', '{y}}', '{', '}}'])) })
    else f.children.splice(p, 0, { t: 'hoist', key })
  }
}

// ---- traversal --------------------------------------------------------------------------------------

export function childLists(n) {
  switch (n.t) {
    case 'el': case 'block': return [n.children]
    case 'if': return [...n.branches.map((b) => [b.node]), ...(n.els ? [[n.els]] : [])]
    case 'for': return [[n.node]]
    default: return []
  }
}
export function walkNodes(nodes, f, depth = 0) {
  for (const n of nodes) {
    f(n, depth)
    for (const l of childLists(n)) walkNodes(l, f, depth + 1)
  }
}
export function nodeValues(n) {
  const out = []
  switch (n.t) {
    case 'text': out.push(n.v); break
    case 'el': for (const a of n.attrs) if (a.value) out.push(a.value); break
    case 'block': if (n.slotAttr) out.push(n.slotAttr); break
    case 'tref': out.push(n.is); if (n.data) out.push(ev(n.data)); break
    case 'slot': if (n.name) out.push(n.name); for (const a of n.attrs || []) if (a.value) out.push(a.value); break
    case 'if': for (const b of n.branches) out.push(b.cond); break
    case 'for': out.push(n.list); if (n.cond) out.push(n.cond); break
  }
  return out
}

export function shapeOfNodes(nodes) {
  return nodes.map(shapeOfNode).join('')
}
function vshape(v) {
  return v === null || v === undefined ? '-' : isStatic(v) ? 's' : isSingle(v) ? 'b' : 'm'
}
export function shapeOfNode(n) {
  switch (n.t) {
    case 'text': return 'T' + vshape(n.v)
    case 'comment': return ''
    case 'hoist': return 'H'
    case 'el': return `E[${n.attrs.map((a) => a.fam + vshape(a.value)).sort().join(',')}${(n.slotVals || []).length ? ',sv' : ''}](${shapeOfNodes(n.children)})`
    case 'block': return `K${n.slotAttr ? 's' : ''}(${shapeOfNodes(n.children)})`
    case 'tref': return `R${vshape(n.is)}${n.data ? 'd' : ''}`
    case 'include': return 'I'
    case 'slot': return `S${vshape(n.name)}[${(n.attrs || []).map((a) => a.fam + vshape(a.value)).join(',')}]`
    case 'if': return `?{${n.branches.map((b) => shapeOfNode(b.node)).join('|')}${n.els ? '|else ' + shapeOfNode(n.els) : ''}}`
    case 'for': return `*${n.key !== undefined ? 'k' : ''}${n.cond ? '?' : ''}{${shapeOfNode(n.node)}}`
    case 'raw': return 'W'
  }
  return '?'
}

// ---- generation ---------------------------------------------------------------------------------------

export const TAGS = ['view', 'div', 'span', 'x-a', 'a', 'b1', 'text', 'cover-view']
export const TEXT_POOL = ['hello', ' x ', 'a b', '1', '<', '>', '&', '"', "'", 'é', '漢字', '😀', '{', '}', 'a<b', 'x&y', ' ', '-', 'A', '}}', '{ {', 'tab\there', 'nl\nhere', '&amp;', 'a < b', '</', '<!', '\u00a0', '\u3000x']
export const ATTR_NAMES = ['title', 'value', 'a-b', 'foo', 'x_y', 'hover-class', 'src', 'n1', 'a.b', 'bindtap', 'catchtouch', 'ontap', 'col-2', 'once']
/** declared (any-typed) properties of `<x-a>` when it is instantiated as a real component (rt.mjs: opts.propComponents) */
export const PROP_COMPONENT_PROPS = ['title', 'value', 'aB', 'foo', 'x_y', 'hoverClass', 'src', 'n1', 'col2', 'once', 'style']
const DATA_NAMES = ['foo', 'a-b', 'x1', 'foo-bar-baz']
const EVENT_NAMES = ['tap', 'touchstart', 'my-event', 'a_b']

export function genStatic(rng, ctx, allowEmpty = true) {
  const n = rng.int(3) + (allowEmpty ? 0 : 1)
  let s = ''
  for (let i = 0; i < n; i++) s += rng.pick(ctx.texts || TEXT_POOL)
  return s
}

export function genValue(rng, ctx, depth = 2) {
  const r = rng.int(10)
  if (r < 3) return sv(genStatic(rng, ctx))
  if (r < 7) return ev(ctx.genExpr(rng, depth))
  const n = rng.range(2, 4)
  const parts = []
  let lastStatic = false
  for (let i = 0; i < n; i++) {
    if (!lastStatic && rng.bool(0.5)) { const s = genStatic(rng, ctx, false); parts.push({ s }); lastStatic = true } else { parts.push({ e: ctx.genExpr(rng, depth) }); lastStatic = false }
  }
  if (parts.every((p) => 's' in p)) parts.push({ e: ctx.genExpr(rng, depth) })
  if (parts.length === 1 && 'e' in parts[0]) parts.unshift({ s: genStatic(rng, ctx, false) })
  return { parts }
}

export function genAttr(rng, ctx, fam, used) {
  const pickName = (pool) => {
    for (let i = 0; i < 8; i++) {
      const n = rng.pick(pool)
      const key = normalizedAttrKey(fam, n)
      if (!used.has(key)) { used.add(key); return n }
    }
    return null
  }
  const valueOrNone = (p = 0.1) => (rng.bool(p) ? null : genValue(rng, ctx))
  switch (fam) {
    case 'class': case 'style': case 'id': case 'slot': {
      if (used.has(fam)) return null
      used.add(fam)
      return { fam, name: fam, value: rng.bool(0.05) ? null : genValue(rng, ctx) }
    }
    case 'plain': { const name = pickName(ctx.attrNames || ATTR_NAMES); return name && { fam, name, value: valueOrNone() } }
    case 'data-': case 'data:': { const name = pickName(DATA_NAMES); return name && { fam, name, value: valueOrNone() } }
    case 'mark': { const name = pickName(DATA_NAMES); return name && { fam, name, value: valueOrNone() } }
    case 'model': { const name = pickName(ATTR_NAMES.slice(0, 8)); return name && { fam, name, value: rng.bool(0.85) ? ev(ctx.genPathExpr ? ctx.genPathExpr(rng) : ctx.genExpr(rng, 1)) : valueOrNone() } }
    case 'change': { const name = pickName(ATTR_NAMES.slice(0, 8)); return name && { fam, name, value: rng.bool(0.85) ? ev(X.id(rng.pick(ctx.fnNames || ['fn']))) : rng.bool(0.5) ? null : sv(genStatic(rng, ctx)) } }
    case 'worklet': case 'extra-attr': { const name = pickName(ATTR_NAMES.slice(0, 8)); return name && { fam, name, value: rng.bool(0.1) ? null : sv(genStatic(rng, ctx)) } }
    case 'generic': { const name = pickName(['g-h', 'item', 'x']); return name && { fam, name, value: sv(rng.pick(['view', 'comp-a', 'x'])) } }
    default: { // events
      const name = pickName(EVENT_NAMES)
      if (!name) return null
      const r = rng.int(10)
      const value = r < 1 ? null : r < 5 ? sv(rng.pick(['onTap', 'handler', 'h'])) : r < 8 ? ev(X.id(rng.pick(ctx.fnNames || ['fn']))) : genValue(rng, ctx, 1)
      return { fam, name, value }
    }
  }
}

export function dashToCamel(s) {
  let out = ''
  let up = false
  for (const c of s) {
    if (c === '-') up = true
    else if (up) { up = false; out += c.toUpperCase() } else out += c
  }
  return out
}

/** The key under which the runtime receives an attribute (used to avoid generating duplicates). */
export function normalizedAttrKey(fam, name) {
  switch (fam) {
    // (on a component a plain attribute is camel-cased by the runtime: `a-b` and `model:a-b` would set the same property,
    //  the later one in source order winning; such pairs are not generated)
    case 'plain': return 'r:' + dashToCamel(name)
    case 'model': return 'r:' + dashToCamel(name)
    case 'data-': return 'd:' + dashToCamel(name.toLowerCase())
    case 'data:': return 'd:' + name
    case 'mark': return 'm:' + name
    case 'change': return 'p:' + dashToCamel(name)
    case 'worklet': return 'wl:' + dashToCamel(name)
    case 'generic': return 'g:' + name
    case 'extra-attr': return 'a:' + name
    default: return 'v:' + name // all event families share the listener slot per event name
  }
}

/**
 * ctx: { genExpr(rng, depth), depth budget, scopes: [names], weights..., allow: {tref, include, slot, comp} }
 * Scope handling: ctx.withScopes(names, f) lets expression generation see for-item/index names.
 */
export function genNodes(rng, ctx, depth, maxN = 4) {
  const n = rng.int(maxN) + (depth === ctx.maxDepth ? 1 : 0)
  const out = []
  let prevText = false
  for (let i = 0; i < n; i++) {
    const node = genNode(rng, ctx, depth, prevText)
    if (!node) continue
    if (node.t === 'text' && prevText && !node.afterText) continue
    prevText = node.t === 'text'
    out.push(node)
  }
  return out
}

function genPlain(rng, ctx, depth) {
  const kind = rng.weighted([
    ['el', 50], ['block', 8], ['tref', ctx.defNames && ctx.defNames.length ? 8 : 0], ['include', ctx.includes && ctx.includes.length ? 4 : 0], ['slot', ctx.allowSlot ? 5 : 0],
  ])
  switch (kind) {
    case 'el': {
      const used = new Set()
      const attrs = []
      const nAttr = rng.int(5)
      for (let i = 0; i < nAttr; i++) {
        const fam = rng.pick(ctx.families || FAMILIES)
        const a = genAttr(rng, ctx, fam, used)
        if (a) attrs.push(a)
      }
      const tag = rng.pick(ctx.tags || TAGS)
      if (tag === 'x-a' && depth > 0 && ctx.slotReceivers && ctx.withScopes && rng.bool(0.4)) {
        // children that receive slot values (`slot:name`, `slot:name="alias"`): the names are in scope on the receiver and below it
        const children = []
        for (let k = rng.range(1, 3); k > 0; k--) {
          const sv_ = []
          for (const name of rng.shuffle(['a', 'b-c', 'item', 'list-index']).slice(0, rng.int(3))) sv_.push({ name, as: rng.bool(0.5) ? undefined : rng.pick(['x', 'it', 'idx', 'index']) })
          const scopeNames = sv_.map((s) => (s.as === undefined ? dashToCamel(s.name) : s.as))
          if (new Set(scopeNames).size !== scopeNames.length) continue
          const node = ctx.withScopes(scopeNames, () => genPlain(rng, { ...ctx, slotReceivers: false, tags: (ctx.tags || TAGS).filter((t) => t !== 'x-a'), withScopes: ctx.withScopes.bind(ctx), visibleNames: ctx.visibleNames.bind(ctx), genExpr: ctx.genExpr.bind(ctx), genListValue: ctx.genListValue && ctx.genListValue.bind(ctx), genPathExpr: ctx.genPathExpr && ctx.genPathExpr.bind(ctx) }, depth - 1))
          if (!node) continue
          if (node.t === 'el' && sv_.length) node.slotVals = sv_
          children.push(node)
        }
        return { t: 'el', tag, attrs, children }
      }
      return { t: 'el', tag, attrs, children: depth > 0 ? genNodes(rng, ctx, depth - 1) : [] }
    }
    case 'block': return { t: 'block', children: depth > 0 ? genNodes(rng, ctx, depth - 1, 3) : [] }
    case 'tref': {
      // (sometimes a name no template has: nothing is rendered, also when Object.prototype has a member of that name)
      const name = rng.bool(0.08) ? rng.pick(['nosuch', 'toString', 'constructor', '__proto__', 'valueOf', 'hasOwnProperty']) : rng.pick(ctx.defNames)
      const is = rng.bool(0.7) ? sv(name) : ev(rng.bool(0.5) ? X.str(name) : X.cond(ctx.genExpr(rng, 1), X.str(name), X.str(rng.pick(ctx.defNames))))
      const fields = []
      const k = rng.int(4)
      const usedF = new Set()
      for (let i = 0; i < k; i++) {
        const fname = rng.pick(ctx.defFields || ['a', 'b', 'c'])
        if (usedF.has(fname)) continue
        usedF.add(fname)
        if (rng.bool(0.3) && ctx.visibleNames().includes(fname)) fields.push({ k: 'short', name: fname })
        else fields.push({ k: 'kv', name: fname, e: ctx.genExpr(rng, 2) })
      }
      if (rng.bool(0.2)) fields.push({ k: 'spread', e: X.id(rng.pick(ctx.objNames || ['ob'])) })
      // `data` may be any expression that yields an object, not only the brace-less object form
      if (rng.bool(0.15)) return { t: 'tref', is, data: rng.bool(0.5) ? X.cond(ctx.genExpr(rng, 1), X.obj(fields), X.obj(fields.filter((f) => f.k !== 'spread').slice(0, 1))) : rng.pick([() => X.cond(ctx.genExpr(rng, 1), X.id('ob'), X.id(rng.pick(['ob', 'obj']))), () => X.bin('||', X.id('ob'), X.id('obj')), () => X.bin('&&', X.id('flag'), X.id('ob')), () => X.idx(X.arr([{ k: 'v', e: X.id('ob') }]), X.num('0'))])() }
      return { t: 'tref', is, data: rng.bool(0.1) ? null : X.obj(fields) }
    }
    case 'include': return { t: 'include', src: rng.pick(ctx.includes) }
    case 'slot': {
      const used = new Set()
      const attrs = []
      for (let i = rng.int(3); i > 0; i--) {
        // slot values, and the common families a slot node carries itself (dataset, marks)
        const a = genAttr(rng, ctx, rng.pick(['plain', 'plain', 'data:', 'data-', 'mark']), used)
        if (a && !/^(bind|catch|on|capture)/.test(a.name)) attrs.push(a)
      }
      return { t: 'slot', name: rng.bool(0.5) ? null : genValue(rng, ctx, 1), attrs }
    }
  }
  return null
}

export function genNode(rng, ctx, depth, prevText) {
  const r = rng.int(100)
  if (r < 22 && !prevText) return { t: 'text', v: genTextValue(rng, ctx) }
  // (now and then a second text node right after a text node: the printer separates them with a comment)
  if (r < 22 && prevText && rng.bool(0.25)) return { t: 'text', v: genTextValue(rng, ctx), afterText: true }
  if (r < 25) return { t: 'comment', s: rng.pick([' c ', '', 'x', ' <a> ', '{{a}}', ' note\n 😀 ', '漢\n字😀😀', '\r\n😀', '😀']) }
  if (r < 40 && depth > 0) {
    // if-chain
    const nb = rng.range(1, 3)
    const branches = []
    for (let i = 0; i < nb; i++) branches.push({ cond: genCondValue(rng, ctx), node: genPlain(rng, ctx, depth - 1) })
    let els = rng.bool(0.5) ? genPlain(rng, ctx, depth - 1) : null
    if (branches.some((b) => !b.node)) return null
    // text nodes directly inside a `<block wx:if / wx:elif / wx:else>`, also two in a row (kept apart by a comment)
    if (rng.bool(0.12)) {
      const two = () => [{ t: 'text', v: genTextValue(rng, ctx) }, { t: 'text', v: genTextValue(rng, ctx), afterText: true }]
      if (rng.bool(0.5)) els = { t: 'block', children: [...two(), ...(els && els.t === 'block' ? els.children.filter((n) => n.t !== 'text') : [])] }
      else { const b = rng.pick(branches); b.node = { t: 'block', children: [...(b.node.t === 'block' ? b.node.children.filter((n) => n.t !== 'text') : [b.node]), ...two()] } }
    }
    return { t: 'if', branches, els }
  }
  if (r < 55 && depth > 0) {
    const renamed = rng.bool(0.4)
    const item = renamed ? rng.pick(['it', 'item', 'x', 'index', 'a']) : undefined
    let index = renamed && rng.bool(0.7) ? rng.pick(['i', 'idx', 'index', 'b']) : undefined
    if (index !== undefined && index === (item === undefined ? 'item' : item)) index = undefined
    const list = ctx.genListValue(rng)
    const names = [item === undefined ? 'item' : item, index === undefined ? 'index' : index]
    const inner = ctx.withScopes(names, () => {
      const node = genPlain(rng, ctx, depth - 1)
      const cond = rng.bool(0.25) ? genCondValue(rng, ctx) : null
      return { node, cond }
    })
    if (!inner.node) return null
    const key = rng.bool(0.5) ? rng.pick(['k', '*this', 'id']) : undefined
    return { t: 'for', list, item, index, key, cond: inner.cond, node: inner.node }
  }
  return genPlain(rng, ctx, depth)
}

export function genTextValue(rng, ctx) {
  // a text node that is one binding of a whitespace-only string literal: it is a real text node (only *static*
  // whitespace-only text is dropped), whichever white-space characters it holds
  if (rng.bool(0.04)) return ev(X.str(rng.pick([' ', '\u000b', ' \u000b\n', '\t', '\f', '\r\n', '  ', '\u000b\u000b'])))
  const v = genValue(rng, ctx)
  if (isStatic(v) && /^[ \t\n\r\f\v]*$/.test(staticText(v))) return sv('t' + staticText(v))
  return v
}
export function genCondValue(rng, ctx) {
  const r = rng.int(10)
  if (r < 8) return ev(ctx.genExpr(rng, 2))
  if (r < 9) return sv(rng.pick(['', 'x', '0']))
  return mv(rng.pick(['', 'x']), ctx.genExpr(rng, 1))
}
