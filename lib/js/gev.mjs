// Bridge to the Rust driver: one synchronous batch = one `gev <mode>` process.
import { spawnSync } from 'node:child_process'
import path from 'node:path'
import { VERIF } from './rt.mjs'

export const GEV = process.env.VERIF_GEV || path.join(VERIF, '.build', 'target', 'debug', 'gev')

/** Returns Map id -> result | {crash} | {inconclusive}. A process abort is attributed to the case announced by `#BEGIN`. */
export function gevBatch(mode, cases, { timeoutMs = 600000, bin = GEV } = {}) {
  const results = new Map()
  let rest = cases
  let guard = 0
  while (rest.length && guard++ < 50) {
    const input = rest.map((c) => JSON.stringify(c)).join('\n') + '\n'
    const p = spawnSync(bin, [mode], { input, maxBuffer: 1 << 30, timeout: timeoutMs, encoding: 'utf8' })
    let begun
    const done = new Set()
    for (const line of (p.stdout || '').split('\n')) {
      if (!line) continue
      if (line.startsWith('#BEGIN ')) {
        try { begun = JSON.parse(line.slice(7)) } catch { begun = line.slice(7) }
        continue
      }
      let r
      try { r = JSON.parse(line) } catch { continue }
      if ('id' in r) { results.set(r.id, r); done.add(r.id) }
    }
    let k = 0
    while (k < rest.length && done.has(rest[k].id)) k++
    if (k >= rest.length) break
    if (p.error && p.error.code === 'ETIMEDOUT') {
      for (const c of rest.slice(k)) results.set(c.id, { id: c.id, inconclusive: 'wall-clock watchdog' })
      break
    }
    const victim = rest[k]
    if (begun === victim.id) results.set(victim.id, { id: victim.id, crash: { status: p.status, signal: p.signal, stderr: (p.stderr || '').slice(-600) } })
    else results.set(victim.id, { id: victim.id, inconclusive: `driver died out of protocol (status=${p.status} signal=${p.signal} err=${p.error})` })
    rest = rest.slice(k + 1)
  }
  return results
}
