// Seeded xorshift128+-style PRNG (32-bit lanes); all non-determinism of the JS drivers comes from here.
export class Rng {
  constructor(seed) {
    let s = (Number(seed) >>> 0) ^ 0x9e3779b9
    const next = () => {
      s = (s + 0x6d2b79f5) >>> 0
      let t = s
      t = Math.imul(t ^ (t >>> 15), t | 1)
      t ^= t + Math.imul(t ^ (t >>> 7), t | 61)
      return (t ^ (t >>> 14)) >>> 0
    }
    this.a = next()
    this.b = next()
    this.c = next()
    this.d = next() | 1
  }
  state() {
    return [this.a, this.b, this.c, this.d]
  }
  static fromState(st) {
    const r = new Rng(0)
    ;[r.a, r.b, r.c, r.d] = st
    return r
  }
  u32() {
    let t = this.a
    const s = this.d
    this.a = this.b
    this.b = this.c
    this.c = s
    t ^= t << 11
    t ^= t >>> 8
    this.d = (t ^ s ^ (s >>> 19)) >>> 0
    return this.d
  }
  float() {
    return this.u32() / 4294967296
  }
  int(n) {
    return n <= 0 ? 0 : this.u32() % n
  }
  range(lo, hi) {
    return lo + this.int(hi - lo + 1)
  }
  bool(p = 0.5) {
    return this.float() < p
  }
  pick(arr) {
    return arr[this.int(arr.length)]
  }
  weighted(pairs) {
    let total = 0
    for (const [, w] of pairs) total += w
    let x = this.float() * total
    for (const [v, w] of pairs) {
      x -= w
      if (x < 0) return v
    }
    return pairs[pairs.length - 1][0]
  }
  shuffle(arr) {
    const a = arr.slice()
    for (let i = a.length - 1; i > 0; i--) {
      const j = this.int(i + 1)
      ;[a[i], a[j]] = [a[j], a[i]]
    }
    return a
  }
  fork(tag) {
    let h = 2166136261
    for (const ch of String(tag)) h = Math.imul(h ^ ch.codePointAt(0), 16777619) >>> 0
    return new Rng((this.u32() ^ h) >>> 0)
  }
}

export function fnv(str) {
  let h1 = 2166136261
  let h2 = 0x811c9dc5 ^ 0x5bd1e995
  for (let i = 0; i < str.length; i++) {
    const c = str.charCodeAt(i)
    h1 = Math.imul(h1 ^ c, 16777619) >>> 0
    h2 = Math.imul(h2 ^ (c + 0x9e37), 0x85ebca6b) >>> 0
  }
  return h1.toString(16).padStart(8, '0') + h2.toString(16).padStart(8, '0')
}
