"""Shared machinery of the /verif checks: building the Rust driver against the current /repo
working tree, sharded execution of `gev`, verdict discipline, evidence and known findings."""
import fcntl
import hashlib
import json
import os
import resource
import subprocess
import sys
import threading
import time

VERIF = os.path.dirname(os.path.dirname(os.path.dirname(os.path.abspath(__file__))))
REPO = os.environ.get("VERIF_REPO", "/repo")
BUILD = os.path.join(VERIF, ".build")
TARGET = os.path.join(BUILD, "target")
NCPU = max(1, min(16, os.cpu_count() or 1))

EXIT_OK, EXIT_VIOLATION, EXIT_INCONCLUSIVE = 0, 1, 2


class Inconclusive(Exception):
    """Harness error / watchdog / too few observations: never a violation, never a pass."""


def log(*a):
    print(*a, flush=True)


def sha(s):
    if isinstance(s, str):
        s = s.encode("utf-8", "surrogatepass")
    return hashlib.sha256(s).hexdigest()


def cargo_env():
    env = dict(os.environ)
    env["CARGO_TARGET_DIR"] = TARGET
    env["CARGO_NET_OFFLINE"] = "true"
    env.pop("RUSTFLAGS", None)
    return env


def build_gev(profile="checked"):
    """(Re)build gev against the current /repo working tree; returns the binary path.
    `checked` = debug assertions + overflow checks; `shipped` = plain release."""
    os.makedirs(BUILD, exist_ok=True)
    lock = open(os.path.join(BUILD, "cargo.lock.flock"), "w")
    fcntl.flock(lock, fcntl.LOCK_EX)
    try:
        harness = os.path.join(VERIF, "harness")
        # keep the lock file in sync with the repository's (same dependency versions as the SUT)
        src_lock = os.path.join(REPO, "Cargo.lock")
        cmd = ["cargo", "build", "--offline", "--quiet"]
        if profile == "shipped":
            cmd.append("--release")
        t0 = time.time()
        p = subprocess.run(cmd, cwd=harness, env=cargo_env(), stdout=subprocess.PIPE, stderr=subprocess.PIPE, text=True)
        if p.returncode != 0:
            if os.path.exists(src_lock):
                # a dependency change in /repo: retry with the repository's lock file
                import shutil

                shutil.copy(src_lock, os.path.join(harness, "Cargo.lock"))
                p = subprocess.run(cmd, cwd=harness, env=cargo_env(), stdout=subprocess.PIPE, stderr=subprocess.PIPE, text=True)
        if p.returncode != 0 and ("ld returned" in p.stderr or "undefined hidden symbol" in p.stderr or "incremental" in p.stderr):
            # a build that was killed half-way leaves inconsistent incremental artefacts: rebuild the three crates once
            subprocess.run(["cargo", "clean", "--offline", "-p", "gev", "-p", "glass-easel-template-compiler", "-p", "glass-easel-stylesheet-compiler"] + (["--release"] if profile == "shipped" else []), cwd=harness, env=cargo_env(), stdout=subprocess.PIPE, stderr=subprocess.PIPE, text=True)
            p = subprocess.run(cmd, cwd=harness, env=cargo_env(), stdout=subprocess.PIPE, stderr=subprocess.PIPE, text=True)
        if p.returncode != 0:
            sys.stderr.write(p.stderr[-1500:])
            raise Inconclusive("cargo build of the driver failed (the working tree does not compile with hooks on?)")
        dt = time.time() - t0
        if dt > 5:
            log(f"[build] gev ({profile}) rebuilt in {dt:.1f}s")
    finally:
        fcntl.flock(lock, fcntl.LOCK_UN)
        lock.close()
    return os.path.join(TARGET, "release" if profile == "shipped" else "debug", "gev")


def build_gev_asan():
    """The driver under AddressSanitizer (nightly toolchain, release profile, own target directory).
    Returns the binary path, or None with a log line when the toolchain cannot produce it (the sanitizer pass is
    then not performed; nothing else depends on it)."""
    os.makedirs(BUILD, exist_ok=True)
    lock = open(os.path.join(BUILD, "cargo.asan.flock"), "w")
    fcntl.flock(lock, fcntl.LOCK_EX)
    try:
        env = cargo_env()
        env["CARGO_TARGET_DIR"] = os.path.join(BUILD, "asan-target")
        env["RUSTFLAGS"] = "-Zsanitizer=address -Cforce-frame-pointers=yes"
        cmd = ["cargo", "+nightly", "build", "--offline", "--quiet", "--release", "--target", "x86_64-unknown-linux-gnu"]
        t0 = time.time()
        try:
            p = subprocess.run(cmd, cwd=os.path.join(VERIF, "harness"), env=env, stdout=subprocess.PIPE, stderr=subprocess.PIPE, text=True, timeout=1800)
        except (OSError, subprocess.TimeoutExpired) as e:
            log(f"[build] gev (asan) not available: {e}")
            return None
        if p.returncode != 0:
            log("[build] gev (asan) not available: " + p.stderr[-400:])
            return None
        if time.time() - t0 > 5:
            log(f"[build] gev (asan) rebuilt in {time.time() - t0:.1f}s")
        return os.path.join(BUILD, "asan-target", "x86_64-unknown-linux-gnu", "release", "gev")
    finally:
        fcntl.flock(lock, fcntl.LOCK_UN)
        lock.close()


def _limits(cpu_s, mem_bytes):
    def f():
        resource.setrlimit(resource.RLIMIT_CPU, (cpu_s, cpu_s + 5))
        if mem_bytes:
            resource.setrlimit(resource.RLIMIT_AS, (mem_bytes, mem_bytes))
        resource.setrlimit(resource.RLIMIT_CORE, (0, 0))
        # the stack bound the recursive descent is allowed (C01): 8 MiB for the main thread, whatever the caller's ulimit
        try:
            soft, hard = resource.getrlimit(resource.RLIMIT_STACK)
            want = 8 << 20
            if hard != resource.RLIM_INFINITY and hard < want:
                want = hard
            resource.setrlimit(resource.RLIMIT_STACK, (want, hard))
        except (ValueError, OSError):
            pass

    return f


def _run_one_worker(binary, mode, cases, results, cpu_per_case=60, mem_bytes=6 << 30, wall_s=900, extra_args=(), env=None):
    """Feed `cases` to one gev process; restart after the case that killed it.
    results[id] = parsed result or {"crash": {...}} or {"inconclusive": reason}."""
    i = 0
    deadline = time.time() + wall_s
    while i < len(cases):
        batch = cases[i:]
        cpu = min(3600, cpu_per_case * max(1, min(len(batch), 60)))
        p = subprocess.Popen(
            [binary, mode, *extra_args],
            stdin=subprocess.PIPE,
            stdout=subprocess.PIPE,
            stderr=subprocess.PIPE,
            preexec_fn=_limits(cpu, mem_bytes),
            env=env,
        )
        data = "".join(json.dumps(c, ensure_ascii=False) + "\n" for c in batch).encode("utf-8", "surrogatepass")
        timed_out = False
        try:
            out, err = p.communicate(data, timeout=max(1, deadline - time.time()))
        except subprocess.TimeoutExpired:
            p.kill()
            out, err = p.communicate()
            timed_out = True
        begun = None
        done = set()
        for line in out.decode("utf-8", "replace").split("\n"):
            if not line:
                continue
            if line.startswith("#BEGIN "):
                try:
                    begun = json.loads(line[7:])
                except Exception:
                    begun = line[7:]
                continue
            try:
                r = json.loads(line)
            except Exception:
                continue
            if "id" in r:
                results[r["id"]] = r
                done.add(r["id"])
        n_done = 0
        for c in batch:
            if c["id"] in done:
                n_done += 1
            else:
                break
        i += n_done
        if i >= len(cases):
            break
        if timed_out:
            for c in cases[i:]:
                results[c["id"]] = {"id": c["id"], "inconclusive": "wall-clock watchdog"}
            break
        # the process died on cases[i]
        victim = cases[i]
        rc = p.returncode
        if begun == victim["id"] or begun is None:
            results[victim["id"]] = {
                "id": victim["id"],
                "crash": {"returncode": rc, "signal": -rc if rc and rc < 0 else None, "stderr": err.decode("utf-8", "replace")[-800:]},
            }
        else:
            results[victim["id"]] = {"id": victim["id"], "inconclusive": f"worker died out of protocol (rc={rc})"}
        i += 1


def run_gev(binary, mode, cases, shards=NCPU, **kw):
    """Run cases (each with a unique "id") over `shards` parallel gev processes."""
    results = {}
    if not cases:
        return results
    shards = max(1, min(shards, len(cases)))
    chunks = [cases[k::shards] for k in range(shards)]
    threads = []
    for ch in chunks:
        t = threading.Thread(target=_run_one_worker, args=(binary, mode, ch, results), kwargs=kw)
        t.start()
        threads.append(t)
    for t in threads:
        t.join()
    return results


# ---------------------------------------------------------------- known findings

def load_known_findings():
    """KNOWN_FINDINGS.txt lines:
         known: property=<id> finding=<slug> matcher=<name> <what fails>
         fixed: property=<id> <commit> <what failed>
       Only `known:` lines suppress anything, and only through their matcher."""
    out = []
    p = os.path.join(VERIF, "KNOWN_FINDINGS.txt")
    if not os.path.exists(p):
        return out
    for line in open(p, encoding="utf-8"):
        line = line.strip()
        if not line.startswith("known:"):
            continue
        parts = line[len("known:"):].split()
        d = {"text": []}
        for w in parts:
            if "=" in w and w.split("=", 1)[0] in ("property", "finding", "matcher") and w.split("=", 1)[0] not in d:
                d[w.split("=", 1)[0]] = w.split("=", 1)[1]
            else:
                d["text"].append(w)
        d["text"] = " ".join(d["text"])
        out.append(d)
    return out


def known_for(pid):
    return [k for k in load_known_findings() if k.get("property") == pid]


# ---------------------------------------------------------------- result / evidence

class Run:
    """One invocation of one check: collects observations, violations, known findings, evidence."""

    def __init__(self, pid, tier, seed):
        self.pid, self.tier, self.seed = pid, tier, seed
        self.t0 = time.time()
        self.evaluations = 0
        self.shapes = set()
        self.samples = []
        self.violations = []  # (summary, witness)
        self.known_hits = {}  # finding slug -> count
        self.known_text = {}
        self.inconclusive = []
        self.extra = {}
        self.rule = ""
        self.assumptions = []
        self.exhaustive = None
        self.min_obs = []  # (name, got, need)
        # witnesses of earlier runs of this check are dropped, so that replays/ shows this run only
        import glob
        for f in glob.glob(os.path.join(VERIF, "replays", f"{pid}-*.json")):
            try:
                os.remove(f)
            except OSError:
                pass

    def sample(self, s, cap=6):
        if len(self.samples) < cap:
            self.samples.append(s)

    def shape(self, h):
        self.shapes.add(h)

    def violation(self, summary, witness):
        if len(self.violations) < 50:
            self.violations.append((summary, witness))
        else:
            self.violations.append((summary, None))

    def known(self, finding, text):
        self.known_hits[finding] = self.known_hits.get(finding, 0) + 1
        self.known_text[finding] = text

    def require(self, name, got, need):
        self.min_obs.append((name, got, need))

    def count(self, key, n=1):
        self.extra[key] = self.extra.get(key, 0) + n

    def finish(self):
        wall = time.time() - self.t0
        os.makedirs(os.path.join(VERIF, "evidence"), exist_ok=True)
        os.makedirs(os.path.join(VERIF, "replays"), exist_ok=True)
        replay_paths = []
        for k, (summary, witness) in enumerate(self.violations[:10]):
            if witness is None:
                continue
            h = sha(json.dumps(witness, sort_keys=True, default=str))[:12]
            rp = os.path.join(VERIF, "replays", f"{self.pid}-{h}.json")
            with open(rp, "wb") as f:
                # (a witness may hold a lone surrogate, e.g. half of an astral character cut by a mutation)
                f.write(json.dumps({"property": self.pid, "summary": summary, "tier": self.tier, "seed": self.seed, "witness": witness}, ensure_ascii=False, indent=1, default=str).encode("utf-8", "backslashreplace"))
            replay_paths.append((summary, rp))
        under = [(n, g, need) for (n, g, need) in self.min_obs if g < need]
        cov = {
            "evaluations": int(self.evaluations),
            "distinct_nontrivial": len(self.shapes),
            "rule": self.rule,
            "samples": self.samples[:8] if self.samples else ["<none>"],
            "known_findings_hit": self.known_hits,
            "inconclusive": len(self.inconclusive),
            "inconclusive_samples": self.inconclusive[:5],
            "min_observations": [{"what": n, "got": g, "need": need} for (n, g, need) in self.min_obs],
        }
        if self.exhaustive is not None:
            cov["exhaustive"] = bool(self.exhaustive)
        cov.update(self.extra)
        ev = {
            "property_id": self.pid,
            "tier": self.tier,
            "seed": int(self.seed),
            "level": "exploration",
            "coverage": cov,
            "assumptions": self.assumptions,
            "wall_s": round(wall, 2),
            "violations": len(self.violations),
        }
        with open(os.path.join(VERIF, "evidence", f"{self.pid}.json"), "wb") as f:
            f.write(json.dumps(ev, ensure_ascii=False, indent=1, default=str).encode("utf-8", "backslashreplace"))
        for finding, n in sorted(self.known_hits.items()):
            log(f"KNOWN-FINDING: property={self.pid} {self.known_text[finding]} [finding={finding}, {n} case(s) this run]")
        if self.violations:
            for summary, rp in replay_paths[:10]:
                log(f"VIOLATION property={self.pid} replay={rp}")
                log(f"  {summary}")
            log(f"[{self.pid}] {len(self.violations)} violation(s) in {self.evaluations} evaluations, {wall:.1f}s")
            return EXIT_VIOLATION
        if under or self.evaluations == 0:
            for n, g, need in under:
                log(f"[{self.pid}] INCONCLUSIVE: observed too little: {n}: got {g}, need {need}")
            if self.evaluations == 0:
                log(f"[{self.pid}] INCONCLUSIVE: nothing was observed")
            return EXIT_INCONCLUSIVE
        if self.inconclusive and len(self.inconclusive) > max(3, self.evaluations // 100):
            log(f"[{self.pid}] INCONCLUSIVE: {len(self.inconclusive)} cases could not be judged, e.g. {self.inconclusive[:3]}")
            return EXIT_INCONCLUSIVE
        if self.extra.get("harness_errors"):
            log(f"[{self.pid}] INCONCLUSIVE: a worker failed; {self.evaluations} evaluations by the others showed no violation")
            return EXIT_INCONCLUSIVE
        log(f"[{self.pid}] held on {self.evaluations} evaluations ({len(self.shapes)} distinct non-trivial shapes), tier={self.tier} seed={self.seed}, {wall:.1f}s")
        return EXIT_OK
