"""Checks C08, C09, C10, C17, C18, C19: one generator, one driver pass, one oracle per property."""
import json
import math
import os
import random
import re
import urllib.parse

import common
from common import log
import cssgen
import csscheck
from csscheck import E, num_close, sig6, as_float, f32

RULES = {
    "C08": "distinct = sequence of token kinds of the stylesheet (values erased) x option set; non-trivial = the expected output differs from the input token list (something was rewritten, removed, or kept because it is meaningful)",
    "C09": "distinct = selector shape (token kinds + nesting) x prefix/sign option; non-trivial = at least one class selector or one class-like token in a non-selector position",
    "C10": "distinct = (numeric spelling, unit, context, ratio); non-trivial = a numeric token is present",
    "C17": "distinct = at-rule nesting chain x position of :host rules x options; non-trivial = at least one :host rule",
    "C18": "distinct = (import form, conditions, position, path class) x sign option; non-trivial = at least one @import",
    "C19": "distinct = sequence of token kinds x option set; non-trivial = a rewritten token or a multi-line / non-ASCII input",
}

PREFIXES = [None, "", "p", "前缀", "a-b", "p", "p\"x", "a\\b"]
SIGNS = [None, None, "S", "pre fix"]
RATIOS = [750.0, 750.0, 375.0, 10.0, 1.0, 0.5, 7.0]


def gen_opts(r, pid):
    o = {}
    p = r.choice(PREFIXES)
    if p is not None:
        o["class_prefix"] = p
    s = r.choice(SIGNS)
    if s is not None:
        o["class_prefix_sign"] = s
    o["rpx_ratio"] = r.choice(RATIOS)
    if r.random() < 0.6:
        o["import_sign"] = r.choice(["IMP", "i m p"])
    if r.random() < 0.6:
        o["convert_host"] = True
    if r.random() < 0.4:
        o["host_is"] = r.choice(["comp/x", "h", "comp\\a1\\index", "h\"q", "x\ny"])
    return o


def tok_value_eq(e, o, loose=True):
    if e.k != o["k"]:
        return False
    if e.k in ("ident", "at", "hash", "idhash", "str", "url", "delim", "func", "comment"):
        return e.v == o.get("v")
    if e.k in ("num", "dim", "pct"):
        if e.k == "dim" and (e.unit or "") != o.get("unit"):
            return False
        # the numeric value is C10's business: a wrong number must not look like a structural mismatch
        return True
    return True


def align(exp, toks, text, want_comments):
    """Match expected tokens with observed ones. Returns (pairs, error). pairs: list of (E, observed token,
    ws_before: bool). Verbatim unicode-range groups swallow the observed tokens up to the end of the declaration."""
    obs = []
    ws = False
    for t in toks:
        if t["k"] == "ws":
            ws = True
            continue
        if t["k"] == "comment" and not want_comments:
            continue
        if t["k"] == "eof-close":
            continue
        obs.append((t, ws))
        ws = False
    pairs = []
    i = 0
    for e in exp:
        if e.k == "raw-urange":
            j = i
            while j < len(obs) and obs[j][0]["k"] not in (";", "}"):
                j += 1
            if j == i:
                return pairs, f"the unicode-range value {e.v!r} is missing from the output"
            raw = text.encode("utf-8")[obs[i][0]["s"]:obs[j - 1][0]["e"]].decode("utf-8", "replace")  # offsets are UTF-8 byte offsets
            pairs.append((e, {"k": "raw-urange", "raw": raw, "c": obs[i][0]["c"], "l": obs[i][0]["l"], "s": obs[i][0]["s"], "e": obs[j - 1][0]["e"], "members": [x[0] for x in obs[i:j]]}, obs[i][1]))
            i = j
            continue
        if i >= len(obs):
            return pairs, f"the output ends where {e!r} is expected"
        o, w = obs[i]
        if not tok_value_eq(e, o):
            return pairs, f"output token #{i} is {show_tok(o)} where {e!r} is expected"
        pairs.append((e, o, w))
        i += 1
    if i < len(obs):
        return pairs, f"the output has extra tokens starting with {show_tok(obs[i][0])}"
    return pairs, None


def show_tok(o):
    return f"{o['k']}({o.get('v', '')}{o.get('unit', '') or ''})"


URANGE = re.compile(r"^[uU]\+([0-9a-fA-F?]{1,6})(?:-([0-9a-fA-F]{1,6}))?$")


def urange_value(s):
    m = URANGE.match(s)
    if not m:
        return None
    a, b = m.group(1), m.group(2)
    if "?" in a:
        return (int(a.replace("?", "0"), 16), int(a.replace("?", "F"), 16))
    return (int(a, 16), int(b, 16) if b else int(a, 16))


def vlq_decode(mappings):
    B64 = "ABCDEFGHIJKLMNOPQRSTUVWXYZabcdefghijklmnopqrstuvwxyz0123456789+/"
    out = []
    gen_line = 0
    src = sl = sc = nm = 0
    for line in mappings.split(";"):
        gc = 0
        if line:
            for seg in line.split(","):
                vals = []
                shift = 0
                cur = 0
                for ch in seg:
                    d = B64.index(ch)
                    cur |= (d & 31) << shift
                    if d & 32:
                        shift += 5
                    else:
                        vals.append(-(cur >> 1) if cur & 1 else cur >> 1)
                        cur = 0
                        shift = 0
                gc += vals[0]
                entry = [gen_line, gc, None, None, None]
                if len(vals) >= 4:
                    src += vals[1]
                    sl += vals[2]
                    sc += vals[3]
                    entry[2], entry[3] = sl, sc
                    if len(vals) >= 5:
                        nm += vals[4]
                        entry[4] = nm
                out.append(entry)
        gen_line += 1
    return out


def token_kinds_shape(flat):
    return "".join({"ident": "i", "delim": "d", "num": "n", "dim": "D", "pct": "%", "str": "s", "url": "u", "func": "f", "at": "@", "hash": "#", "idhash": "#"}.get(t.k, t.k[0]) for t in flat)


def judge_case(pid, run, case, res, known):
    """Apply the oracle of `pid`. `known` = listed finding slugs for pid."""
    rules, text, flat, opts = case["rules"], case["text"], case["flat"], case["opts"]

    def viol(msg, **w):
        run.violation(msg, {"css": text, "opts": opts, "seed": case["seed"], **w})
        case["failed"] = True

    if res is None or res.get("inconclusive"):
        run.inconclusive.append(res.get("inconclusive") if res else "no result")
        return
    if res.get("crash") or res.get("panics"):
        viol("the stylesheet compiler failed: " + json.dumps(res.get("panics") or res.get("crash"))[:300])
        return
    # self-check of the generator: cssparser must read the input as the token list that was intended
    tin = [t for t in res["tokens_in"] if t["k"] not in ("ws", "comment", "eof-close")]
    j = 0
    ok = True
    for t in flat:
        if t.k == "raw-urange":
            while j < len(tin) and tin[j]["k"] not in (";", "}"):
                j += 1
            continue
        if j >= len(tin) or not tok_value_eq(E(t.k, t.v, t.unit, f32(t.num) if t.num is not None else None, t.int), tin[j]):
            ok = False
            break
        j += 1
    if not ok or j != len(tin):
        run.count("generator_self_check_failed")
        case["skipped"] = True
        return
    exp = csscheck.expected(rules, opts)
    sign = opts.get("class_prefix_sign")
    want_comments = pid in ("C09", "C18", "C19")
    run.evaluations += 1
    outs = {}
    for which, toks, out_text in (("normal", res["tokens_out"], res["out"]), ("low", res["tokens_low"], res["low"])):
        # comments expected in the output: sign comments and import placeholders
        pairs, err = align(exp[which], toks, out_text, True if any(e.k == "comment" for e in exp[which]) else False)
        outs[which] = (pairs, err)

    n_rewritten = sum(1 for e in exp["normal"] + exp["low"] if e.rpx or e.cls or e.synth)
    case["nontrivial"] = n_rewritten > 0 or len(flat) != len([t for t in res["tokens_in"] if t["k"] != "eof-close"])

    def structure_errors():
        return [(w, outs[w][1]) for w in ("normal", "low") if outs[w][1]]

    if pid == "C08":
        for w, err in structure_errors():
            viol(f"{w} output does not re-tokenise to the expected token sequence: {err}", out=res["out"], low=res["low"])
            return
        for w in ("normal", "low"):
            for e, o, ws in outs[w][0]:
                if getattr(e, "kind", None) == "replayed":
                    continue
                if e.k == "raw-urange":
                    got = urange_value(o["raw"])
                    run.count("verbatim_unicode_range")
                    if got != urange_value(e.v) and "unicode-range-separated" in known and urange_value(o["raw"].replace(" ", "")) == urange_value(e.v):
                        # bug-compatible: the same range once the separators inserted by the serializer are removed
                        run.known("unicode-range-separated", known["unicode-range-separated"])
                        continue
                    if got != urange_value(e.v):
                        viol(f"unicode-range {e.v!r} was emitted as {o['raw']!r}, which no longer denotes the same range", out=res["out"])
                        return
                    continue
                if e.ws == "must" and not ws:
                    viol(f"meaningful whitespace before {show_tok(o)} (input {e.src.text if e.src else '?'!r} at {e.src.src if e.src else '?'}) was dropped", out=res[w == 'normal' and 'out' or 'low'], context=context_of(e))
                    return
                if e.ws == "mustnot" and ws:
                    viol(f"whitespace was inserted before {show_tok(o)}, changing the meaning", out=res[w == 'normal' and 'out' or 'low'])
                    return
                if e.src is not None:
                    run.count("adjacency:" + e.ws)
        return
    if pid == "C09":
        for w, err in structure_errors():
            viol(f"{w} output: {err}", out=res["out"], low=res["low"])
            return
        n_cls = 0
        for w in ("normal", "low"):
            for e, o, ws in outs[w][0]:
                if e.cls:
                    n_cls += 1
                    run.count("class_selectors_checked")
                if e.k == "comment" and e.synth and getattr(e, "kind", None) != "import-placeholder":
                    run.count("sign_comments_checked")
        # comments: exactly the expected ones (sign comments and import placeholders) survive
        obs_comments = [t["v"] for t in res["tokens_out"] + res["tokens_low"] if t["k"] == "comment"]
        exp_comments = [e.v for e in exp["normal"] + exp["low"] if e.k == "comment"]
        if obs_comments != exp_comments:
            viol(f"comments in the output {obs_comments[:6]} differ from the sign/placeholder comments expected {exp_comments[:6]}", out=res["out"])
        case["nontrivial"] = n_cls > 0 or any(t.k == "delim" and t.v == "." for t in flat)
        return
    if pid == "C10":
        for w, err in structure_errors():
            # structure is C08's business - unless the token at which the output departs is a number: a numeric token
            # that comes out as another kind of token, with another unit, or as several tokens, did not keep its value
            idx = len(outs[w][0])
            lst = exp["normal" if w == "normal" else "low"]
            e_fail = lst[idx] if idx < len(lst) else None
            if e_fail is not None and e_fail.k in ("num", "dim", "pct") and getattr(e_fail, "kind", None) != "replayed":
                src = e_fail.src.text if e_fail.src is not None else "?"
                viol(f"the numeric token {src} did not come out as one {e_fail.k} token" + (f" with unit {e_fail.unit}" if e_fail.unit else "") + f": {err}", out=res["out"], ratio=opts.get("rpx_ratio"))
                return
            run.count("structure_mismatch_skipped")
            return
        seen_num = False
        for w in ("normal", "low"):
            for e, o, ws in outs[w][0]:
                if e.k == "raw-urange" and getattr(e, "kind", None) != "replayed":
                    # unicode code points are integers too: the range must denote the same code points
                    run.count("numeric:unicode-range")
                    if urange_value(o["raw"]) != urange_value(e.v):
                        viol(f"unicode-range {e.v!r} was emitted as {o['raw']!r}: not the same code points", out=res["out"])
                        return
                    seen_num = True
                    continue
                if e.k not in ("num", "dim", "pct") or getattr(e, "kind", None) == "replayed":
                    continue
                seen_num = True
                got = as_float(o.get("v"))
                want = e.num
                if e.src is not None and e.src.ctx == "prelude-bare" and e.src.unit == "rpx":
                    # the property converts rpx in at-rule preludes; the SUT (and a pinned test) leave a bare prelude dimension alone
                    if o.get("unit") == "rpx" and "rpx-in-bare-at-prelude" in known:
                        run.known("rpx-in-bare-at-prelude", known["rpx-in-bare-at-prelude"])
                        continue
                    if o.get("unit") == "rpx":
                        viol(f"{e.src.text} in a bare at-rule prelude was not converted", out=res["out"])
                        return
                kindname = "rpx" if e.rpx else "integer" if e.int is not None else "float"
                run.count("numeric:" + kindname)
                exact_ok = num_close(got, want) and (e.int is None or o.get("int") == e.int)
                if exact_ok:
                    continue
                # bug-compatible re-evaluation: the 6-significant-digit printer (recorded finding)
                # (it concerns non-integers and rpx results only: integers are printed exactly)
                if kindname != "integer" and "six-significant-digits" in known and num_close(got, sig6(want), 1e-6):
                    run.known("six-significant-digits", known["six-significant-digits"])
                    continue
                src = e.src.text if e.src is not None else "?"
                viol(f"{src} ({kindname}) was emitted as {o.get('v')}{o.get('unit', '') or ''}" + (f" (int_value {o.get('int')})" if e.int is not None else "") + f"; expected {want!r}{e.unit or ''}" + (f" exactly {e.int}" if e.int is not None else " within single precision"), out=res["out"], ratio=opts.get("rpx_ratio"))
                return
        case["nontrivial"] = seen_num
        return
    if pid == "C17":
        hosts = []
        collect_hosts(rules, [], hosts)
        case["nontrivial"] = bool(hosts)
        for w, err in structure_errors():
            viol(f"{w} output: {err}", out=res["out"], low=res["low"])
            return
        got_w = [x["kind"] for x in res["warnings"] if "host" in x["kind"]]
        want_w = [k for k in exp["warnings"] if k == "HostSelectorCombination"]
        if len(got_w) != len(want_w):
            viol(f"{len(got_w)} HostSelectorCombination warning(s) for {len(want_w)} combined :host selector(s)", warnings=res["warnings"])
            return
        if not opts.get("convert_host") and res["low"] != "":
            viol("host conversion is off but the low-priority output is not empty", low=res["low"])
            return
        for b, name in ((res["out"], "normal"), (res["low"], "low")):
            depth = 0
            for t in (res["tokens_out"] if name == "normal" else res["tokens_low"]):
                if t["k"] == "{":
                    depth += 1
                elif t["k"] == "}":
                    depth -= 1
                elif t["k"] == "eof-close":
                    viol(f"unbalanced braces in the {name} output", out=b)
                    return
            if depth != 0:
                viol(f"unbalanced braces in the {name} output", out=b)
                return
        run.count("host_rules", len(hosts))
        return
    if pid == "C18":
        imports = [x for x in rules if x["t"] == "import"]
        case["nontrivial"] = bool(imports)
        for w, err in structure_errors():
            viol(f"{w} output: {err}", out=res["out"], low=res["low"])
            return
        got_w = [x["kind"] for x in res["warnings"] if "import" in x["kind"]]
        want_w = [k for k in exp["warnings"] if k == "IllegalImportPosition"]
        maybe_w = [k for k in exp["warnings"] if k == "IllegalImportPosition?"]
        if not (len(want_w) <= len(got_w) <= len(want_w) + len(maybe_w)):
            viol(f"{len(got_w)} IllegalImportPosition warning(s), expected {len(want_w)}" + (f" to {len(want_w) + len(maybe_w)}" if maybe_w else "") + " (imports after other rules)", warnings=res["warnings"])
            return
        for e, o, ws in outs["normal"][0]:
            if getattr(e, "kind", None) == "import-placeholder":
                run.count("import_placeholders")
                sign_ = opts["import_sign"]
                v = o["v"]
                if not v.startswith(sign_ + " "):
                    viol(f"placeholder comment {v!r} does not start with the import sign", out=res["out"])
                    return
                if urllib.parse.unquote(v[len(sign_) + 1:]) != e.name:
                    viol(f"the path {e.name!r} is not recoverable from the placeholder {v!r}", out=res["out"])
                    return
        return
    if pid == "C19":
        for w, err in structure_errors():
            run.count("structure_mismatch_skipped")
            return
        mon = res.get("mon", {})
        if mon.get("col_desync"):
            viol(f"output column bookkeeping out of sync after a {mon['col_desync'][0]['kind']} append: utf16_len={mon['col_desync'][0]['got']} but the output has {mon['col_desync'][0]['want']} UTF-16 units", out=res["out"])
            return
        run.count("column_events_checked", mon.get("col_events", 0))
        for w, mkey, jkey in (("normal", "map", "map_json"), ("low", "low_map", "low_map_json")):
            entries = res[mkey]
            prev = (-1, -1)
            by_col = {}
            for ent in entries:
                dl, dc, sl, sc, name = ent[0], ent[1], ent[2], ent[3], ent[4]
                if (dl, dc) < prev:
                    viol(f"{w} source map: entries not in non-decreasing output order at {dl}:{dc}", out=res["out"])
                    return
                prev = (dl, dc)
                by_col.setdefault((dl, dc), []).append((sl, sc, name))
            # JSON round trip
            try:
                j = json.loads(res[jkey])
                dec = vlq_decode(j["mappings"])
                names = j.get("names", [])
                dec2 = [[d[0], d[1], d[2], d[3], names[d[4]] if d[4] is not None else None] for d in dec]
                ext = [[e_[0], e_[1], e_[2], e_[3], e_[4]] for e_ in entries]
                if dec2 != ext:
                    viol(f"{w} source map: the JSON serialisation decodes to different entries than extract_source_map", first_extract=ext[:5], first_json=dec2[:5])
                    return
            except Exception as ex:  # noqa
                viol(f"{w} source map JSON does not decode: {ex}")
                return
            stack = []
            for e, o, ws in outs[w][0]:
                if getattr(e, "kind", None) == "replayed":
                    continue
                col = (o["l"], o["c"])
                if e.k in ("(", "[", "{", "func"):
                    stack.append(e)
                opener = None
                if e.k in (")", "]", "}"):
                    opener = stack.pop() if stack else None
                cands = by_col.get(col)
                run.count("tokens_with_expected_entry")
                if not cands:
                    viol(f"{w} source map: no entry for the token {show_tok(o)} at output column {o['c']}", out=res[w == 'normal' and 'out' or 'low'], entries=entries[:12])
                    return
                allowed = set()
                if e.src is not None and e.src.src is not None:
                    allowed.add(tuple(e.src.src))
                if opener is not None and opener.src is not None and opener.src.src is not None:
                    allowed.add(tuple(opener.src.src))
                if e.synth and e.span is not None:
                    # a synthesised token points somewhere into the construct that triggered it
                    lo, hi = tuple(e.span[0]), tuple(e.span[1])
                    if any(lo <= (sl, sc) <= hi for sl, sc, _ in cands):
                        continue
                    viol(f"{w} source map: synthesised token {show_tok(o)} at output column {o['c']} maps to {[(a, b) for a, b, _ in cands]}, outside the rule that triggered it ({lo}..{hi})", out=res["out"])
                    return
                if e.synth and not allowed:
                    continue
                if allowed and not any((sl, sc) in allowed for sl, sc, _ in cands):
                    viol(f"{w} source map: token {show_tok(o)} at output column {o['c']} maps to {[(a, b) for a, b, _ in cands]}, its source token starts at {sorted(allowed)}", out=res[w == 'normal' and 'out' or 'low'])
                    return
                if e.k == "raw-urange" and e.src is not None and e.src.src is not None and len(o.get("raw", "")) > 1:
                    # the part after the `U` is copied verbatim as one piece: it has an entry of its own, at its first column
                    tail = by_col.get((o["l"], o["c"] + 1))
                    want_tail = (e.src.src[0], e.src.src[1] + 1)
                    run.count("unicode_range_tails_checked")
                    if not tail or not any((sl, sc) == want_tail for sl, sc, _ in tail):
                        viol(f"{w} source map: the verbatim part of the unicode range {o['raw']!r} (output column {o['c'] + 1}) maps to {[(a, b) for a, b, _ in (tail or [])]}, it starts at {want_tail} in the source", out=res["out"])
                        return
                if e.name is not None and getattr(e, "kind", None) != "import-placeholder":
                    names_here = [n for _, _, n in cands]
                    ok_name = e.name in names_here if not e.cls else any(n is not None and css_ident_value(n) == e.name for n in names_here)
                    if not ok_name and not (e.rpx and any(n and same_dim_spelling(n, e.name) for n in names_here)):
                        viol(f"{w} source map: rewritten token {show_tok(o)} should carry the original spelling {e.name!r} as name, has {names_here}", out=res["out"])
                        return
                    run.count("named_entries_checked")
        case["nontrivial"] = case["nontrivial"] or "\n" in text or any(ord(ch) > 127 for ch in text)
        return


def css_ident_value(text):
    """The identifier a CSS spelling denotes (escapes decoded), or None when the text is not one identifier token.
    The name of a prefixed class must be *a spelling of the source identifier* (the SUT re-serialises it, so
    `.\\62 tn` may come back as `btn`, but `md:w-1/2` is not a spelling of `md\\:w-1\\/2`)."""
    out = []
    i, n = 0, len(text)
    raw_first = None
    while i < n:
        ch = text[i]
        if ch == "\\":
            i += 1
            if i >= n or text[i] in "\n\r\f":
                return None
            m = re.match(r"[0-9a-fA-F]{1,6}", text[i:])
            if m:
                cp = int(m.group(0), 16)
                out.append(chr(cp) if 0 < cp <= 0x10FFFF and not (0xD800 <= cp <= 0xDFFF) else "\ufffd")
                i += len(m.group(0))
                if i < n and text[i] in " \t\n\r\f":
                    i += 2 if text[i] == "\r" and i + 1 < n and text[i + 1] == "\n" else 1
            else:
                out.append(text[i])
                i += 1
            if raw_first is None:
                raw_first = "esc"
            continue
        if not (ch.isalnum() and ch.isascii() or ch in "-_" or ord(ch) >= 0x80):
            return None
        if raw_first is None:
            raw_first = ch
            if ch.isdigit():
                return None
        elif len(out) == 1 and raw_first == "-" and ch.isdigit():
            return None
        out.append(ch)
        i += 1
    if not out or (out == ["-"] and raw_first == "-"):
        return None
    return "".join(out)


def same_dim_spelling(a, b):
    """a: the name found in the map, b: the source spelling. The SUT names a rewritten dimension by the
    serialisation of the source token, so exotic spellings (`+.5rpx`, `1e2rpx`, more than 6 digits) come back
    normalised; a plain decimal spelling must come back character for character."""
    mb = re.match(r"^(-?(?:0|[1-9][0-9]*)(?:\.[0-9]*[1-9])?)([a-zA-Z%]*)$", b)
    if mb and (("." not in mb.group(1) and abs(int(mb.group(1))) < 2 ** 31) or ("." in mb.group(1) and len(re.sub(r"[-.]", "", mb.group(1)).lstrip("0")) <= 6)):
        return a == b  # plain integers of the i32 range, and decimals of up to 6 significant digits
    m1 = re.match(r"^([-+0-9.eE]+)([a-zA-Z%]*)$", a)
    m2 = re.match(r"^([-+0-9.eE]+)([a-zA-Z%]*)$", b)
    try:
        return bool(m1 and m2 and m1.group(2) == m2.group(2) and num_close(float(m1.group(1)), float(m2.group(1)), 1e-5))
    except ValueError:
        return False


def context_of(e):
    return {"input_token": e.src.text, "at": e.src.src, "ctx": e.src.ctx} if e.src is not None else None


def collect_hosts(rules, chain, out):
    for x in rules:
        if x["t"] == "host":
            out.append((tuple(chain), x))
        elif x["t"] == "at" and x.get("body") == "rules":
            collect_hosts(x["rules"], chain + [x["name"]], out)


WITNESSES = {
    "C19": [("form-feed-counted-as-line-break", ".a{color:red}\x0c.b{width:1rpx}\n.c{}", {"class_prefix": "p"}, lambda r: any(m[1] == 17 and m[2] == 1 for m in r.get("map", [])))],
    "C10": [("rpx-in-bare-at-prelude", "@a 75rpx;", {}, lambda r: "75rpx" in r["out"]), ("six-significant-digits", ".a{z-index:2147483647;width:0.1234567px}", {}, lambda r: "0.123457" in r["out"])],
}


def run(run, pid, tier, seed, replay=None):
    run.rule = RULES[pid]
    run.assumptions = [
        "the cssparser 0.34 linked into the driver is the tokenizer of outputs (and of the input, as a self-check of the generator); no CSS parser is written on the oracle side",
        "expected outputs are a pure function of the annotated rule tree and the options",
    ]
    gev = common.build_gev("checked")
    known = {k["finding"]: k["text"] for k in common.known_for(pid) if k.get("finding")}
    n = {"quick": 6000, "thorough": 80000}[tier]
    if pid in ("C17", "C18"):
        n = n // 2
    cases = []
    if replay:
        w = json.load(open(replay))["witness"]
        seeds = [w["seed"]]
    else:
        rr = random.Random(seed * 1000003 + hash(pid) % 1000)
        rr = random.Random(seed * 1000003 + sum(ord(c) for c in pid))
        seeds = [rr.randrange(1 << 48) for _ in range(n)]
    for i, s in enumerate(seeds):
        r = random.Random(s)
        g = cssgen.Gen(r)
        rules = g.stylesheet(imports=(pid in ("C18", "C08", "C19") or r.random() < 0.2))
        text, flat = csscheck.print_sheet(r, rules)
        opts = gen_opts(r, pid)
        if pid == "C17":
            opts["convert_host"] = r.random() < 0.85
        if pid == "C18" and r.random() < 0.8:
            opts["import_sign"] = "IMP"
        cases.append({"id": i, "seed": s, "rules": rules, "text": text, "flat": flat, "opts": opts})
    # a byte order mark in front of the text (an artefact of the file encoding) is not a part of the stylesheet
    for c in cases:
        c["bom"] = (c["seed"] % 41) == 7
    payload = [{"id": c["id"], "css": ("\ufeff" if c["bom"] else "") + c["text"], "path": "p", "opts": c["opts"], "maps": pid == "C19", "tokens": True} for c in cases]
    results = common.run_gev(gev, "css", payload)
    # witnesses of the recorded findings
    for slug, css, o, pred in WITNESSES.get(pid, []):
        if slug in known:
            r1 = common.run_gev(gev, "css", [{"id": 0, "css": css, "path": "p", "opts": o, "maps": pid == "C19", "tokens": False}], shards=1).get(0)
            if r1 and "out" in r1 and pred(r1):
                run.known(slug, known[slug])
            else:
                log(f"STALE-FINDING {slug}: the recorded witness no longer reproduces")
    shapes = set()
    for c in cases:
        judge_case(pid, run, c, results.get(c["id"]), known)
        if c.get("skipped"):
            continue
        if c.get("nontrivial"):
            run.shape(common.sha(token_kinds_shape(c["flat"]) + json.dumps(sorted((k, str(v)) for k, v in c["opts"].items())))[:16])
        if len(run.samples) < 3:
            run.sample({"css": c["text"][:500], "opts": c["opts"], "out": (results.get(c["id"]) or {}).get("out", "")[:500]})
    run.extra["stylesheets"] = len(cases)
