"""Miri batches (thorough tier of C01, C05, C16): the driver `gev` itself is interpreted by
`cargo +nightly miri run`, so every `unsafe` site the workload reaches in the two crates is checked for
undefined behaviour (Stacked Borrows, uninitialised reads, out-of-bounds, invalid values).

Verdicts: a Miri error whose first in-repository frame lies in /repo  -> violation of the property whose
workload reached it (the API did not return a value); an error elsewhere (the driver, std, the tool itself),
a build failure, a missing toolchain or a watchdog -> inconclusive. A case the interpreter completed is one
evaluation. Miri costs ~35 s of start-up plus ~20 s per small template, so the batches are small and sharded
over all cores."""
import json
import os
import re
import subprocess
import threading
import time

import common
from common import VERIF, NCPU, log

MIRI_TARGET = os.path.join(common.BUILD, "miri-target")

# scope-resolution material (C05): every construct that goes through convert_scopes / SubExpressionMut
SCOPE_TEMPLATES = [
    '<a wx:for="{{l}}">{{item}}{{index}}<b wx:for="{{item.s}}" wx:for-item="x" wx:for-index="item">{{x}}{{item}}{{index}}</b>{{item}}</a>{{item}}',
    '<a wx:for="{{ [ , , item][2] ? l : [...l, item] }}" wx:key="k">{{ [ , , item, ,index] }}{{ {...item, index, k: item.x} }}</a>',
    '<wxs module="m">exports.f = function(a){return a}</wxs><a wx:for="{{m.l}}" wx:for-item="m">{{m}}{{m.f(index)}}</a>{{m.f(1)}}',
    '<c><d slot:a slot:b-c="x">{{a}}{{x}}{{bC}}<e slot:a>{{a}}{{x}}</e></d><d>{{a}}</d></c>',
    '<template name="t"><a wx:for="{{l}}">{{item ? item.x : index}}</a>{{item}}</template><a wx:for="{{l}}"><template is="t" data="{{ l: item, item }}"/></a>',
    '<a wx:for="{{l}}" wx:if="{{item}}" model:v="{{item.v}}" bind:tap="{{ f ? item.h : g }}" change:v="{{ m.c }}">{{ typeof item === "x" ? -index : !item }}</a><b wx:elif="{{item}}"/><b wx:else>{{index}}</b>',
    '<block wx:for="{{ a ?? b }}" wx:for-item="a"><block wx:for="{{ a[index] }}" wx:for-item="b">{{ a[b][index](a, ...b) }}</block></block>',
    '<slot name="{{n}}" v="{{item}}"/><a wx:for="{{3}}"><slot v="{{item}}" w="{{ [item, , index] }}"/></a><include src="x"/>',
]


def _run_shard(mode, cases, results, wall_s):
    env = dict(os.environ)
    env["CARGO_TARGET_DIR"] = MIRI_TARGET
    env["CARGO_NET_OFFLINE"] = "true"
    env["MIRIFLAGS"] = "-Zmiri-disable-isolation"
    env.pop("RUSTFLAGS", None)
    i = 0
    deadline = time.time() + wall_s
    while i < len(cases):
        batch = cases[i:]
        data = "".join(json.dumps(c, ensure_ascii=False) + "\n" for c in batch).encode("utf-8")
        try:
            p = subprocess.run(["cargo", "+nightly", "miri", "run", "--offline", "--quiet", "--", mode], cwd=os.path.join(VERIF, "harness"), env=env, input=data, stdout=subprocess.PIPE, stderr=subprocess.PIPE, timeout=max(1, deadline - time.time()))
        except subprocess.TimeoutExpired:
            for c in batch:
                results[c["id"]] = {"inconclusive": "wall-clock watchdog (Miri)"}
            return
        begun, done = None, 0
        for line in p.stdout.decode("utf-8", "replace").split("\n"):
            if line.startswith("#BEGIN "):
                try:
                    begun = json.loads(line[7:])
                except Exception:
                    begun = None
                continue
            if not line:
                continue
            try:
                r = json.loads(line)
            except Exception:
                continue
            if "id" in r:
                results[r["id"]] = r
                done += 1
        i += done
        if i >= len(cases):
            return
        err = p.stderr.decode("utf-8", "replace")
        victim = cases[i]
        if "Undefined Behavior" in err or "error: unsupported operation" in err or "memory leaked" in err:
            m = re.search(r"error: ([^\n]*)", err)
            frames = re.findall(r"(?:-->|at) (/[^\s:]+\.rs):(\d+):\d+", err)
            in_repo = next(((f, l) for f, l in frames if f.startswith(common.REPO + "/")), None)
            results[victim["id"]] = {"miri_error": m.group(1)[:300] if m else "error", "site": f"{in_repo[0][len(common.REPO) + 1:]}:{in_repo[1]}" if in_repo else None, "first_frame": f"{frames[0][0]}:{frames[0][1]}" if frames else None, "unsupported": "unsupported operation" in err and "Undefined Behavior" not in err, "stderr": err[-1500:]}
        else:
            results[victim["id"]] = {"inconclusive": f"miri run ended out of protocol (rc={p.returncode}): {err[-300:]}"}
        i += 1


def miri_available():
    try:
        p = subprocess.run(["cargo", "+nightly", "miri", "--version"], stdout=subprocess.PIPE, stderr=subprocess.PIPE, text=True, timeout=60)
        return p.returncode == 0
    except Exception:
        return False


def run_batch(run, mode, cases, what, wall_s=1500):
    """Interpret `cases` (gev case dicts with unique ids) under Miri; fold the outcome into `run`."""
    if not cases:
        return
    if not miri_available():
        run.inconclusive.append("Miri is not installed on the nightly toolchain")
        run.extra["miri"] = {"available": False}
        return
    t0 = time.time()
    # build once (the first run compiles the driver for the interpreter), then shard
    env = dict(os.environ, CARGO_TARGET_DIR=MIRI_TARGET, CARGO_NET_OFFLINE="true", MIRIFLAGS="-Zmiri-disable-isolation")
    env.pop("RUSTFLAGS", None)
    warm = subprocess.run(["cargo", "+nightly", "miri", "run", "--offline", "--quiet", "--", mode], cwd=os.path.join(VERIF, "harness"), env=env, input=b"", stdout=subprocess.PIPE, stderr=subprocess.PIPE, timeout=1800)
    if warm.returncode != 0:
        run.inconclusive.append("building the driver for Miri failed: " + warm.stderr.decode("utf-8", "replace")[-300:])
        run.extra["miri"] = {"available": True, "built": False}
        return
    results = {}
    shards = max(1, min(NCPU, len(cases)))
    threads = []
    for k in range(shards):
        t = threading.Thread(target=_run_shard, args=(mode, cases[k::shards], results, wall_s))
        t.start()
        threads.append(t)
    for t in threads:
        t.join()
    ok = ub = 0
    for c in cases:
        r = results.get(c["id"])
        src = c.get("src") or json.dumps(c.get("files"))[:400]
        if r is None or r.get("inconclusive"):
            run.inconclusive.append((r or {}).get("inconclusive", "no result") + " [miri]")
            continue
        if r.get("miri_error"):
            if r.get("site") and not r.get("unsupported"):
                ub += 1
                run.violation(f"Miri: {r['miri_error']} at {r['site']} while {what}", {"tool": "miri", "mode": mode, "case": c, "site": r["site"], "stderr": r["stderr"]})
            else:
                run.inconclusive.append(f"Miri stopped outside the repository code ({r.get('first_frame')}): {r['miri_error'][:120]}")
            continue
        run.evaluations += 1
        ok += 1
        if r.get("panics"):
            run.violation(f"panic under Miri while {what}: {json.dumps(r['panics'])[:300]}", {"tool": "miri", "mode": mode, "case": c, "panics": r["panics"]})
        it = r.get("iters")
        if it:
            run.count("miri_iter_expressions", it.get("expressions", 0))
            run.count("miri_iter_elements", it.get("elements", 0))
            for v in it.get("violations", []):
                run.violation(f"child iterator disagrees with the fields: {v}", {"tool": "miri", "case": c})
        run.shape("miri|" + common.sha(src)[:12])
    run.extra["miri"] = {"available": True, "built": True, "cases": len(cases), "completed": ok, "ub_reports": ub, "wall_s": round(time.time() - t0, 1), "flags": "-Zmiri-disable-isolation", "mode": mode}
    log(f"[miri] {ok}/{len(cases)} cases interpreted without a report ({mode}), {time.time() - t0:.0f}s")


def corpus_sources(seed, n):
    """Generated templates (lib/js/corpus.mjs), short ones first."""
    node = __import__("check").find_node()
    out = []
    if node:
        p = subprocess.run([node, "--no-warnings", os.path.join(VERIF, "lib/js/corpus.mjs"), str(seed), str(n * 6)], stdout=subprocess.PIPE, text=True)
        for line in p.stdout.split("\n"):
            if line:
                out.append(json.loads(line)["src"])
    out = [s for s in out if len(s) < 700]
    out.sort(key=len)
    return out[:: max(1, len(out) // n)][:n] if out else []


def batch_for(pid, seed, n=40):
    if pid == "C05":
        srcs = SCOPE_TEMPLATES + [s for s in corpus_sources(seed, n * 2) if "wx:for" in s or "slot:" in s][: max(0, n - len(SCOPE_TEMPLATES))]
        return "tmpl", [{"id": i, "files": [["p", s]], "want": {"gen": True, "groups": True, "stringify": True, "mangled": True}} for i, s in enumerate(srcs)], "resolving scopes and generating code"
    if pid == "C16":
        srcs = SCOPE_TEMPLATES + corpus_sources(seed, n)[: max(0, n - len(SCOPE_TEMPLATES))]
        # the element `_mut` iterator is excluded: it is UB under Stacked Borrows (DESIGN.md section 0) and would stop the interpreter
        return "ast", [{"id": i, "src": s, "path": "p", "iters": True, "iters_elem_mut": False, "tree": False} for i, s in enumerate(srcs)], "walking the AST through the public child iterators"
    srcs = corpus_sources(seed, n) + ['<a b="{{0x1f + 017 + 1e3}}" c="&amp;&#x41;&bogus;">{{ a ?? b }}</a><!-- c --><wxs module="m">exports.a=1</wxs>', "<a <b c='{{ }}' </a>{{ x", '<a wx:for="{{l}}"/><b wx:else/><template is="{{t}}" data="{{...a}}"/>']
    return "tmpl", [{"id": i, "files": [["p", s]]} for i, s in enumerate(srcs)], "compiling and printing a template"
