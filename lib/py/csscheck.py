"""Oracles of the stylesheet properties (C08, C09, C10, C17, C18, C19): expected outputs computed from the
annotated rule tree and the options; observed outputs re-tokenised by cssparser inside the driver."""
import math
import urllib.parse

from cssgen import T, Out, spell_ws, ident, delim, simple, string, func, number


# ---------------------------------------------------------------- printing the input


def print_sheet(r, rules):
    """Returns (text, flat list of the abstract input tokens in order)."""
    out = Out()
    flat = []

    def emit(t):
        if t.ws:
            out.add(spell_ws(r, True))
        out.tok(t)
        flat.append(t)

    def emit_free(t):
        # a token around which whitespace is insignificant: sometimes add some
        if r.random() < 0.3:
            out.add(spell_ws(r, False))
        out.tok(t)
        flat.append(t)

    def decls(ds, ctxmark=None):
        for i, d in enumerate(ds):
            if r.random() < 0.5:
                out.add(spell_ws(r, False))
            for t in list(d):
                emit(t)
            if i < len(ds) - 1 or r.random() < 0.7:
                semi = simple(";")
                emit_free(semi)
                d.append(semi)  # the separator that was really written belongs to the declaration
            if r.random() < 0.3:
                out.add(spell_ws(r, False))

    def rule(x):
        if r.random() < 0.6:
            out.add(spell_ws(r, False))
        if x["t"] == "rule":
            for t in x["sel"]:
                emit(t)
            x["open"] = simple("{")
            emit_free(x["open"])
            decls(x["decls"])
            x["close"] = simple("}")
            emit_free(x["close"])
        elif x["t"] == "host":
            x["toks"] = host_tokens(x)
            for t in x["toks"]:
                emit(t)
            x["open"] = simple("{")
            emit_free(x["open"])
            decls(x["decls"])
            x["close"] = simple("}")
            emit_free(x["close"])
        elif x["t"] == "at":
            # at-rule names are ASCII case-insensitive: spell some of them in upper / mixed case
            sp = x["name"]
            q = r.random()
            if q < 0.08:
                sp = sp.upper()
            elif q < 0.14:
                sp = sp.capitalize()
            x["kw"] = T("at", sp, "@" + sp)
            emit(x["kw"])
            for t in x["pre"]:
                emit(t)
            if x["body"] is None:
                x["semi"] = simple(";")
                emit_free(x["semi"])
            else:
                x["open"] = simple("{")
                emit_free(x["open"])
                if x["body"] == "rules":
                    for y in x["rules"]:
                        rule(y)
                elif x["body"] == "decls":
                    decls(x["decls"])
                else:
                    for fr in x["frames"]:
                        for t in fr["sel"]:
                            emit_free(t)
                        fr["open"] = simple("{")
                        emit_free(fr["open"])
                        decls(fr["decls"])
                        fr["close"] = simple("}")
                        emit_free(fr["close"])
                if r.random() < 0.3:
                    out.add(spell_ws(r, False))
                x["close"] = simple("}")
                emit_free(x["close"])
        elif x["t"] == "declrun":
            # every declaration of the run is closed by its semicolon (a rule may follow)
            for i, d in enumerate(x["decls"]):
                for t in list(d):
                    emit(t)
                if x.get("last") and i == len(x["decls"]) - 1 and r.random() < 0.6:
                    if r.random() < 0.5:
                        out.add(spell_ws(r, False))
                    continue  # (the closing brace of the group rule ends it)
                semi = simple(";")
                emit_free(semi)
                d.append(semi)
                if r.random() < 0.3:
                    out.add(spell_ws(r, False))
        elif x["t"] == "cdo":
            x["tok"] = T(x["which"], None, "<!--" if x["which"] == "cdo" else "-->", ws=True)
            emit(x["tok"])
            out.add(" ")
        elif x["t"] == "import":
            x["toks"] = import_tokens(x)
            for t in x["toks"]:
                emit(t)
            x["semi"] = simple(";")
            emit_free(x["semi"])

    for x in rules:
        rule(x)
    if r.random() < 0.5:
        out.add(spell_ws(r, False))
    return out.text(), flat


def host_tokens(x):
    sp = x.get("host_spelling", "host")  # pseudo-class names are ASCII case-insensitive
    toks = [simple(":", ctx="sel"), ident(sp, ctx="sel", wsmean="mustnot")]
    c = x["combo"]
    if c == "func":
        toks = [simple(":", ctx="sel"), func(sp, ctx="sel", wsmean="mustnot"), delim(".", ctx="sel"), ident("a", ctx="sel", cls=True, wsmean="mustnot"), simple(")", ctx="sel")]
    elif c == "class":
        toks += [delim(".", ctx="sel", wsmean="mustnot"), ident("a", ctx="sel", cls=True, wsmean="mustnot")]
    elif c == "descendant":
        toks += [delim(".", ctx="sel", ws=True, wsmean="must"), ident("a", ctx="sel", cls=True, wsmean="mustnot")]
    elif c == "attr":
        toks += [T("[", None, "[", ctx="sel", wsmean="mustnot"), ident("hidden", ctx="sel"), simple("]", ctx="sel")]
    elif c == "attr-desc":
        toks += [T("[", None, "[", ctx="sel", ws=True, wsmean="must"), ident("data-x", ctx="sel"), delim("=", ctx="sel"), string("1", '"', ctx="sel"), simple("]", ctx="sel")]
    elif c == "pseudo":
        toks += [simple(":", ctx="sel", wsmean="mustnot"), ident("hover", ctx="sel", wsmean="mustnot")]
    elif c == "id":
        toks += [T("idhash", "main", "#main", ctx="sel", wsmean="mustnot")]
    elif c == "list":
        toks += [simple(",", ctx="sel"), delim(".", ctx="sel", ws=True), ident("a", ctx="sel", cls=True, wsmean="mustnot")]
    elif c in ("pre-list", "pre-list-2"):
        toks = [delim(".", ctx="sel"), ident("a", ctx="sel", cls=True, wsmean="mustnot"), simple(",", ctx="sel")] + toks
        if c == "pre-list-2":
            toks += [simple(",", ctx="sel"), ident("b", ctx="sel", ws=True)]
    elif c == "pre-class":
        toks[0].wsmean = "mustnot"
        toks = [delim(".", ctx="sel"), ident("c", ctx="sel", cls=True, wsmean="mustnot")] + toks
    elif c == "pre-star":
        toks[0].wsmean = "mustnot"
        toks = [delim("*", ctx="sel")] + toks
    elif c == "pre-desc":
        toks[0].ws = True
        toks[0].wsmean = "must"
        toks = [ident("view", ctx="sel")] + toks
    elif c in ("pre-list-func", "in-not-func", "pre-desc-func"):
        # the functional form `:host(...)` anywhere but in front
        fn = [simple(":", ctx="sel"), func(sp, ctx="sel", wsmean="mustnot"), delim(".", ctx="sel"), ident("c", ctx="sel", cls=True, wsmean="mustnot"), simple(")", ctx="sel")]
        if c == "pre-list-func":
            toks = [delim(".", ctx="sel"), ident("b", ctx="sel", cls=True, wsmean="mustnot"), simple(",", ctx="sel")] + fn
            toks[3].ws = True
        elif c == "pre-desc-func":
            fn[0].wsmean = "mustnot"
            toks = [ident("view", ctx="sel")] + fn + [delim(".", ctx="sel", ws=True, wsmean="must"), ident("e", ctx="sel", cls=True, wsmean="mustnot")]
        else:
            fn[0].wsmean = "mustnot"
            toks = [simple(":", ctx="sel"), func("not", ctx="sel", wsmean="mustnot")] + fn + [simple(")", ctx="sel")]
    elif c in ("in-is-first", "in-not-desc", "in-has"):
        # `:host` inside a functional pseudo-class with more after it inside the parentheses
        toks[0].wsmean = "mustnot"
        tail = {"in-is-first": [simple(",", ctx="sel"), delim(".", ctx="sel", ws=True), ident("a", ctx="sel", cls=True, wsmean="mustnot")],
                "in-not-desc": [delim(".", ctx="sel", ws=True, wsmean="must"), ident("a", ctx="sel", cls=True, wsmean="mustnot")],
                "in-has": [delim(">", ctx="sel", ws=True), delim(".", ctx="sel", ws=True), ident("a", ctx="sel", cls=True, wsmean="mustnot")]}[c]
        fn = {"in-is-first": "is", "in-not-desc": "not", "in-has": "has"}[c]
        pre = [delim(".", ctx="sel"), ident("b", ctx="sel", cls=True, wsmean="mustnot")] if c == "in-has" else []
        toks = pre + [simple(":", ctx="sel", wsmean="mustnot" if pre else "free"), func(fn, ctx="sel", wsmean="mustnot")] + toks + tail + [simple(")", ctx="sel")]
    elif c == "in-is":
        toks[0].wsmean = "mustnot"
        toks = [simple(":", ctx="sel"), func("is", ctx="sel", wsmean="mustnot")] + toks + [simple(")", ctx="sel")]
    return toks


def import_tokens(x):
    sp = x.get("kw_spelling", "import")
    toks = [T("at", sp, "@" + sp)]
    p = x["path"]
    if x["form"] == "string":
        toks.append(string(p, '"' if "'" in p else "'", ctx="prelude", ws=True))
    elif x["form"] == "url-func":
        toks += [func("url", ctx="prelude", ws=True), string(p, '"' if "'" in p else "'", ctx="prelude"), simple(")", ctx="prelude")]
    else:
        safe = all(ch not in p for ch in " '\"()\\") and all(ord(ch) > 32 for ch in p)
        if safe:
            toks.append(T("url", p, "url(" + p + ")", ctx="prelude", ws=True))
        else:
            x["form"] = "url-func"
            toks += [func("url", ctx="prelude", ws=True), string(p, '"' if "'" in p else "'", ctx="prelude"), simple(")", ctx="prelude")]
    x["cond_parts"] = []
    for kind, arg in x["conds"]:
        if kind == "layer" and arg is None:
            # the bare keyword: an anonymous layer
            f = ident("layer", ctx="prelude", ws=True)
            toks.append(f)
            x["cond_parts"].append((f, None, None))
            continue
        if kind == "layer":
            f = func(x.get("fn_spelling", {}).get("layer", "layer"), ctx="prelude", ws=True)
            inner = []
            parts = arg.split(".")
            for i, s in enumerate(parts):
                if i:
                    inner.append(delim(".", ctx="prelude", wsmean="mustnot"))
                inner.append(ident(s, ctx="prelude", wsmean="mustnot" if i else "free"))
        else:
            f = func(x.get("fn_spelling", {}).get("supports", "supports"), ctx="prelude", ws=True)
            sv = x.get("supports_variant", 0)
            if sv == 1:
                # a dotted value in the condition is not a class selector
                inner = [ident("font-family", ctx="prelude"), simple(":", ctx="prelude"), ident("a", ctx="prelude", ws=True), delim(".", ctx="prelude", wsmean="mustnot"), ident("b", ctx="prelude", cls=True, wsmean="mustnot")]
            elif sv == 2:
                # `selector(...)` holds a selector: its class names are class selectors
                inner = [func("selector", ctx="prelude"), delim(".", ctx="sel"), ident("x", ctx="sel", cls=True, wsmean="mustnot"), simple(")", ctx="prelude")]
            else:
                inner = [ident("display", ctx="prelude"), simple(":", ctx="prelude"), ident("grid", ctx="prelude", ws=True)]
        close = simple(")", ctx="prelude")
        toks += [f] + inner + [close]
        x["cond_parts"].append((f, inner, close))
    m = x["media"]
    x["media_toks"] = []
    if m:
        mt = []
        def paren():
            if x.get("supports_variant", 0) == 1:
                # a dotted value in a media feature is not a class selector
                return [T("(", None, "(", ctx="prelude", ws=True), ident("foo", ctx="prelude"), simple(":", ctx="prelude"), ident("a", ctx="prelude", ws=True), delim(".", ctx="prelude", wsmean="mustnot"), ident("b", ctx="prelude", cls=True, wsmean="mustnot"), simple(")", ctx="prelude")]
            return [T("(", None, "(", ctx="prelude", ws=True), ident("min-width", ctx="prelude"), simple(":", ctx="prelude"), T("dim", None, "10px", num=10.0, int=10, unit="px", ctx="prelude", ws=True), simple(")", ctx="prelude")]

        def word(w, must=False):
            return ident(w, ctx="prelude", ws=True, wsmean="must" if must else "free")

        if m in ("screen", "screen-and-paren"):
            mt.append(word("screen"))
        if m in ("all", "all-and-paren"):
            mt.append(word("all"))
        if m in ("layer-type", "layer-type-and-paren"):
            mt.append(word("layer"))
        if m == "layer-type-and-paren":
            mt.append(word("and"))
            mt += paren()
        if m == "not-all":
            mt += [word("not"), word("all")]
        if m == "only-screen-and-paren":
            mt += [word("only"), word("screen")]
        if m == "list":
            mt += [word("print"), simple(",", ctx="prelude"), word("screen")]
        if m == "paren-and-paren":
            mt += paren()
        if m in ("general-enclosed", "screen-and-general"):
            # `<general-enclosed>`: a function the media query grammar leaves to the future
            if m == "screen-and-general":
                mt += [word("screen"), word("and")]
            mt += [func("foo", ctx="prelude", ws=True), ident("x", ctx="prelude"), simple(")", ctx="prelude")]
        if m in ("screen-and-paren", "all-and-paren", "only-screen-and-paren", "paren-and-paren"):
            mt.append(word("and"))
        if m in ("paren", "screen-and-paren", "all-and-paren", "only-screen-and-paren", "paren-and-paren"):
            mt += paren()
        x["media_toks"] = mt
        toks += mt
    return toks


# ---------------------------------------------------------------- expected outputs


class E:
    """An expected output token."""

    __slots__ = ("k", "v", "unit", "num", "int", "ws", "src", "name", "synth", "group", "rpx", "cls", "kind", "span", "alt_name")

    def __init__(self, k, v=None, unit=None, num=None, int_=None, ws="free", src=None, name=None, synth=False, group=None, rpx=False, cls=False):
        self.k, self.v, self.unit, self.num, self.int, self.ws, self.src, self.name, self.synth, self.group, self.rpx, self.cls = k, v, unit, num, int_, ws, src, name, synth, group, rpx, cls
        self.kind = None
        self.span = None
        self.alt_name = None

    def __repr__(self):
        return f"E({self.k} {self.v if self.v is not None else ''}{self.num if self.num is not None else ''}{self.unit or ''})"


def f32(x):
    import struct

    try:
        return struct.unpack("f", struct.pack("f", x))[0]
    except OverflowError:
        return math.inf if x > 0 else -math.inf


def expected(rules, opts):
    """Returns dict(normal=[E], low=[E], warnings=[kind...], n_rules=..., placements=[...])."""
    prefix = opts.get("class_prefix")
    sign = opts.get("class_prefix_sign")
    ratio = opts.get("rpx_ratio", 750.0)
    import_sign = opts.get("import_sign")
    convert_host = opts.get("convert_host", False)
    host_is = opts.get("host_is")
    normal, low, warnings = [], [], []
    state = {"first": True, "only_imports": True}

    def conv(t, out, selector_ctx):
        """Append the expected output token(s) of input token t."""
        ws = "free"
        if t.wsmean == "mustnot":
            ws = "mustnot"
        elif t.ws and t.wsmean == "must":
            ws = "must"
        if t.k == "raw-urange":
            out.append(E("raw-urange", t.v, ws=ws, src=t, group=t.group))
            return
        if t.k == "dim" and t.unit == "rpx" and t.ctx != "prelude-bare":
            nv = f32(f32(t.num) * 100.0 / f32(ratio)) if ratio not in (0, 0.0) else (math.inf if t.num > 0 else -math.inf if t.num < 0 else math.nan)
            out.append(E("dim", None, "vw", nv, None, ws=ws, src=t, name=t.text, rpx=True, group=t.group))
            return
        if t.k == "ident" and t.cls and selector_ctx:
            if sign is not None:
                out.append(E("comment", sign, ws="mustnot", src=t, synth=True))
                ws2 = "mustnot"
            else:
                ws2 = ws
            out.append(E("ident", (prefix + "--" + t.v) if prefix is not None else t.v, ws=ws2, src=t, name=(t.v if prefix is not None else None), cls=True))
            out[-1].alt_name = t.text  # the escaped source spelling is as good a name as the decoded one
            return
        if t.k in ("num", "dim", "pct"):
            out.append(E(t.k, None, t.unit, f32(t.num), t.int, ws=ws, src=t, group=t.group))
            return
        out.append(E(t.k, t.v, ws=ws, src=t, group=t.group))

    def conv_decls(ds, out):
        for d in ds:
            for t in d:
                conv(t, out, False)

    def at_prelude(x, out):
        out.append(E("at", x["kw"].v, src=x["kw"]))
        for t in x["pre"]:
            conv(t, out, True)

    def walk(rs, outs, at_stack):
        for x in rs:
            first = state["first"]
            state["first"] = False
            if x["t"] == "import":
                do_import(x, outs, first)
                continue
            if x["t"] == "cdo":
                outs[0].append(E(x["which"], src=x["tok"]))
                continue
            if x["t"] == "declrun":
                if not x["decls"]:
                    continue  # (a run of zero declarations is no text at all)
                state["only_imports"] = False
                state["only_layer_statements"] = False
                conv_decls(x["decls"], outs[0])
                continue
            # (inside a group rule, only the rules that precede the group rule count as "other rules before")
            before = state["only_imports"]
            before_ls = state.get("only_layer_statements", True)
            if not (x["t"] == "at" and x["name"] == "charset"):
                if state["only_imports"]:
                    state["only_layer_statements"] = True
                state["only_imports"] = False
                if not (x["t"] == "at" and x["name"] == "layer" and x["body"] is None):
                    state["only_layer_statements"] = False
            if x["t"] == "rule":
                for t in x["sel"]:
                    conv(t, outs[0], True)
                outs[0].append(E("{", src=x["open"]))
                conv_decls(x["decls"], outs[0])
                outs[0].append(E("}", src=x["open"]))
            elif x["t"] == "host":
                if not convert_host:
                    for t in x["toks"]:
                        conv(t, outs[0], True)
                    outs[0].append(E("{", src=x["open"]))
                    conv_decls(x["decls"], outs[0])
                    outs[0].append(E("}", src=x["open"]))
                elif x["combo"] is not None:
                    warnings.append("HostSelectorCombination")
                else:
                    lo = outs[1]
                    for pre in at_stack:
                        for e in pre:
                            lo.append(E(e.k, e.v, e.unit, e.num, e.int, ws=e.ws, synth=True, group=e.group, rpx=e.rpx, cls=e.cls))
                            lo[-1].kind = "replayed"
                        lo.append(E("{", synth=True))
                        lo[-1].kind = "replayed"
                    for name, val in [("wx-host", prefix or "")] + ([("is", host_is)] if host_is is not None else []):
                        if name == "is":
                            lo.append(E(",", src=x["open"], synth=True))
                        lo += [E("[", src=x["open"], synth=True), E("ident", name, src=x["open"], synth=True), E("delim", "=", src=x["open"], synth=True), E("str", val, src=x["open"], synth=True), E("]", src=x["open"], synth=True)]
                    lo.append(E("{", src=x["open"]))
                    conv_decls(x["decls"], lo)
                    lo.append(E("}", src=x["open"]))
                    for _ in at_stack:
                        lo.append(E("}", synth=True))
                        lo[-1].kind = "replayed"
                    x["placed_low"] = True
            elif x["t"] == "at":
                pre = []
                at_prelude(x, pre)
                outs[0].extend(pre)
                if x["body"] is None:
                    outs[0].append(E(";", src=x["semi"]))
                    continue
                outs[0].append(E("{", src=x["open"]))
                if x["body"] == "rules":
                    state["only_imports"] = before
                    state["only_layer_statements"] = before_ls if not before else True
                    walk(x["rules"], outs, at_stack + [pre])
                    state["only_imports"] = False
                    state["only_layer_statements"] = False
                elif x["body"] == "decls":
                    conv_decls(x["decls"], outs[0])
                else:
                    for fr in x["frames"]:
                        for t in fr["sel"]:
                            conv(t, outs[0], False)
                        outs[0].append(E("{", src=fr["open"]))
                        conv_decls(fr["decls"], outs[0])
                        outs[0].append(E("}", src=fr["open"]))
                outs[0].append(E("}", src=x["open"]))

    def do_import(x, outs, first):
        out = outs[0]
        if import_sign is None:
            state["only_imports"] = state["only_imports"]
            for t in x["toks"]:
                conv(t, out, t.ctx == "sel")
            out.append(E(";", src=x["semi"]))
            return
        if not state["only_imports"]:
            # (`@layer a, b;` statements before an import are legal in CSS Cascade 5 and "other rules" in the plain
            #  reading of the property: an import preceded by nothing else may or may not be flagged)
            warnings.append("IllegalImportPosition?" if state.get("only_layer_statements") else "IllegalImportPosition")
        kw = x["toks"][0]
        closes = 0
        first_index = len(out)
        for f, inner, close in x["cond_parts"]:
            out.append(E("at", f.v, src=f, synth=True))
            if inner is None:
                out.append(E("{", src=f, synth=True))
                closes += 1
                continue
            if f.v.lower() == "supports":
                out.append(E("(", src=f, synth=True))
            for t in inner:
                conv(t, out, t.ctx == "sel")
            if f.v.lower() == "supports":
                out.append(E(")", src=f, synth=True))
            out.append(E("{", src=f, synth=True))
            closes += 1
        if x["media_toks"]:
            out.append(E("at", "media", src=kw, synth=True))
            for t in x["media_toks"]:
                conv(t, out, False)
            out.append(E("{", src=kw, synth=True))
            closes += 1
        out.append(E("comment", import_sign + " " + urllib.parse.quote(x["path"], safe="-_.~"), src=kw, synth=True))
        out[-1].kind = "import-placeholder"
        out[-1].name = x["path"]
        for _ in range(closes):
            out.append(E("}", src=kw, synth=True))
        for e in out[first_index:]:
            if e.synth:
                e.span = (kw.src, x["semi"].src)

    walk(rules, (normal, low), [])
    return {"normal": normal, "low": low, "warnings": warnings}


# ---------------------------------------------------------------- comparing


def sig6(x):
    """What a 6-significant-digit float printer (cssparser's dtoa_short) writes for x."""
    if x == 0 or math.isinf(x) or math.isnan(x):
        return x
    return float("%.6g" % x)


def num_close(got, want, tol=4 * 2.0 ** -23):
    if math.isnan(want):
        return math.isnan(got)
    if math.isinf(want):
        return got == want or abs(got) >= 3.4e38
    if want == 0:
        return abs(got) <= 1e-38
    return abs(got - want) <= tol * abs(want)


def as_float(v):
    if isinstance(v, str):
        return {"inf": math.inf, "-inf": -math.inf, "NaN": math.nan}.get(v, math.nan)
    return float(v)
