"""./check <ID> [--tier quick|thorough] [--replay FILE] — runs one property check against /repo's working tree."""
import glob
import json
import os
import subprocess
import sys
import tempfile
import time

sys.path.insert(0, os.path.dirname(os.path.abspath(__file__)))
import common
from common import Run, Inconclusive, log, VERIF, NCPU

JS_PROPS = {"C02", "C03", "C04", "C05", "C06", "C07", "C11", "C12", "C13", "C14", "C15", "C16", "C20"}
PY_PROPS = {"C01": "p_c01", "C08": "p_css", "C09": "p_css", "C10": "p_css", "C17": "p_css", "C18": "p_css", "C19": "p_css"}


def find_node():
    """A Node with module.stripTypeScriptTypes (>= 22.13) is needed to rebuild the runtime from the working tree."""
    cands = []
    for d in os.environ.get("PATH", "").split(":"):
        cands.append(os.path.join(d, "node"))
    cands += sorted(glob.glob(os.path.expanduser("~/.nvm/versions/node/*/bin/node")), reverse=True)
    cands += sorted(glob.glob("/root/.nvm/versions/node/*/bin/node"), reverse=True)
    best = None
    for c in cands:
        if not os.path.exists(c):
            continue
        try:
            v = subprocess.run([c, "-e", "console.log(typeof require('node:module').stripTypeScriptTypes)"], stdout=subprocess.PIPE, stderr=subprocess.DEVNULL, text=True, timeout=20).stdout.strip()
        except Exception:
            continue
        if v == "function":
            return c
        best = best or c
    return None


def run_js(pid, tier, seed, replay=None, shards=NCPU, profile="checked", wall_s=None):
    node = find_node()
    if not node:
        raise Inconclusive("no Node >= 22.13 found: the runtime cannot be rebuilt from the working tree")
    gev = common.build_gev(profile)
    env = dict(os.environ)
    env["VERIF_GEV"] = gev
    # build the runtime once, before the shards race for it
    p = subprocess.run([node, "--no-warnings", "-e", "import('%s/lib/js/rt.mjs').then(m=>{const r=m.ensureRuntimeBuilt();console.log(r.hash)})" % VERIF], stdout=subprocess.PIPE, stderr=subprocess.PIPE, text=True, env=env)
    if p.returncode != 0:
        sys.stderr.write(p.stderr[-3000:])
        raise Inconclusive("building the runtime from glass-easel/src failed (type-stripping loader)")
    tmp = tempfile.mkdtemp(prefix="run-", dir=os.path.join(VERIF, ".build"))
    procs = []
    if replay:
        shards = 1
    wall_s = wall_s or (7200 if tier == "thorough" else 1500)
    for i in range(shards):
        out = os.path.join(tmp, f"shard{i}.json")
        cmd = [node, "--no-warnings", "--stack-size=4000", "--max-old-space-size=3072", os.path.join(VERIF, "lib/js/worker.mjs"), pid, "--tier", tier, "--seed", str(seed), "--shard", str(i), "--nshards", str(shards), "--out", out]
        if replay:
            cmd += ["--replay", replay]
        procs.append((subprocess.Popen(cmd, env=env, stdout=subprocess.PIPE, stderr=subprocess.PIPE), out))
    results = []
    deadline = time.time() + wall_s
    for p, out in procs:
        try:
            so, se = p.communicate(timeout=max(1, deadline - time.time()))
        except subprocess.TimeoutExpired:
            p.kill()
            so, se = p.communicate()
            results.append({"harnessError": "wall-clock watchdog fired (inconclusive)", "watchdog": True})
            continue
        if os.path.exists(out):
            results.append(json.load(open(out, encoding="utf-8")))
        else:
            results.append({"harnessError": "worker produced no result: rc=%s %s" % (p.returncode, se.decode("utf-8", "replace")[-1500:])})
    import shutil

    shutil.rmtree(tmp, ignore_errors=True)
    return results


def merge_js(run, results):
    errors = [r["harnessError"] for r in results if r.get("harnessError")]
    counts, matrices = {}, {}
    listed = {k["finding"]: k["text"] for k in common.known_for(run.pid) if k.get("finding")}
    for r in results:
        run.evaluations += r.get("evaluations", 0)
        for s in r.get("shapes", []):
            run.shape(s)
        for s in r.get("samples", []):
            run.sample(s)
        for v in r.get("violations", []):
            run.violation(v["summary"], v["witness"])
        for k, v in (r.get("known") or {}).items():
            if k in listed:
                for _ in range(v["n"]):
                    run.known(k, listed[k] or v["text"])
            else:
                # only findings listed in the committed KNOWN_FINDINGS.txt may suppress anything
                run.violation(f"unlisted finding '{k}' matched {v['n']} case(s): {v['text']}", {"finding": k, "text": v["text"]})
        for x in r.get("inconclusive", []):
            run.inconclusive.append(x)
        for k, v in (r.get("counts") or {}).items():
            counts[k] = counts.get(k, 0) + v
        for m, cells in (r.get("matrices") or {}).items():
            mm = matrices.setdefault(m, {})
            for k, v in cells.items():
                mm[k] = mm.get(k, 0) + v
        if r.get("rule"):
            run.rule = r["rule"]
        if r.get("assumptions"):
            run.assumptions = r["assumptions"]
        if r.get("exhaustive") is not None:
            run.exhaustive = r["exhaustive"]
        if r.get("runtime"):
            run.extra["ts_runtime"] = r["runtime"]
        for n in r.get("notes", []) or []:
            run.extra.setdefault("notes", [])
            if n not in run.extra["notes"] and len(run.extra["notes"]) < 20:
                run.extra["notes"].append(n)
    run.extra["counts"] = counts
    run.extra["matrices"] = {m: dict(sorted(c.items())) for m, c in matrices.items()}
    run.extra["shards"] = len(results)
    return errors


def main():
    args = sys.argv[1:]
    if not args:
        print(__doc__)
        return 2
    pid = args[0]
    tier = os.environ.get("VERIF_TIER", "quick")
    replay = None
    i = 1
    while i < len(args):
        if args[i] == "--tier":
            tier = args[i + 1]
            i += 2
        elif args[i] == "--replay":
            replay = args[i + 1]
            i += 2
        else:
            i += 1
    if tier not in ("quick", "thorough"):
        tier = "quick"
    seed = int(os.environ.get("VERIF_SEED", "0") or 0)
    run = Run(pid, tier, seed)
    try:
        if pid in JS_PROPS:
            results = run_js(pid, tier, seed, replay)
            errors = merge_js(run, results)
            if errors:
                for e in errors[:3]:
                    log(f"[{pid}] HARNESS: {e[:1500]}")
                run.extra["harness_errors"] = errors[:5]
                rc = run.finish()
                # a harness error is never a pass and never hides a violation that was really observed
                return rc if rc == common.EXIT_VIOLATION else common.EXIT_INCONCLUSIVE
            # per-property minimum observations are declared by the driver in counts["require:<name>:<need>"]
            for k, v in run.extra.get("counts", {}).items():
                if k.startswith("require:"):
                    _, name, need = k.split(":")
                    run.require(name, run.extra["counts"].get(name, 0), int(need))
        elif pid in PY_PROPS:
            mod = __import__(PY_PROPS[pid])
            mod.run(run, pid, tier, seed, replay)
        else:
            log(f"unknown property {pid}")
            return 2
        if tier == "thorough" and pid in ("C01", "C05", "C16") and not replay and os.environ.get("VERIF_NO_MIRI") != "1":
            # sanitizer batch: the same driver, interpreted by Miri (lib/py/p_miri.py)
            import p_miri

            mode, cases, what = p_miri.batch_for(pid, seed)
            p_miri.run_batch(run, mode, cases, what)
        return run.finish()
    except Inconclusive as e:
        log(f"[{pid}] INCONCLUSIVE: {e}")
        run.extra["inconclusive_reason"] = str(e)
        run.finish()
        return common.EXIT_INCONCLUSIVE


if __name__ == "__main__":
    sys.exit(main())
