"""E4: stylesheet generator with annotated tokens.

A stylesheet is generated as a tree of rules whose leaves are *abstract tokens* (kind, value + annotations:
selector/value context, is-class-name, whitespace before the token and whether that whitespace carries
meaning).  The concrete text is one spelling of that token list; the expected outputs are pure functions of the
tree and the options (csscheck.py).  No CSS is parsed on the oracle side: the structure is known because it was
generated; the only tokenizer involved is the cssparser linked into the driver, used on the *outputs* (and on
the input as a self-check of the generator)."""
import random

# ---------------------------------------------------------------- tokens


class T:
    __slots__ = ("k", "v", "unit", "num", "int", "sign", "text", "ctx", "cls", "ws", "wsmean", "group", "src")

    def __init__(self, k, v=None, text=None, **kw):
        self.k = k
        self.v = v
        self.text = text if text is not None else (v if isinstance(v, str) else k)
        self.unit = kw.get("unit")
        self.num = kw.get("num")
        self.int = kw.get("int")
        self.sign = kw.get("sign", False)
        self.ctx = kw.get("ctx", "value")  # 'sel' | 'value' | 'prelude' | 'kf'
        self.cls = kw.get("cls", False)
        self.ws = kw.get("ws", False)  # whitespace (or a comment) precedes this token in the input
        self.wsmean = kw.get("wsmean", "free")  # 'must' (ws present and meaningful) | 'mustnot' | 'free'
        self.group = kw.get("group")  # verbatim micro-syntax group: ('urange'|'anb', id)
        self.src = None

    def key(self):
        return (self.k, self.v, self.unit)

    def __repr__(self):
        return f"<{self.k} {self.text!r}{' cls' if self.cls else ''}>"


def ident(name, text=None, **kw):
    return T("ident", name, text or name, **kw)


def delim(c, **kw):
    return T("delim", c, c, **kw)


def _i32(text):
    # (integers outside the i32 range are promised their value to single precision only)
    v = int(text)
    return v if -(2 ** 31) <= v <= 2 ** 31 - 1 else None


def number(text, **kw):
    v = float(text)
    is_int = all(ch in "+-0123456789" for ch in text)
    return T("num", None, text, num=v, int=_i32(text) if is_int else None, sign=text[0] in "+-", **kw)


def dimension(text, unit, **kw):
    v = float(text)
    is_int = all(ch in "+-0123456789" for ch in text)
    return T("dim", None, text + unit, num=v, int=_i32(text) if is_int else None, unit=unit, sign=text[0] in "+-", **kw)


def percentage(text, **kw):
    v = float(text)
    is_int = all(ch in "+-0123456789" for ch in text)
    return T("pct", None, text + "%", num=v / 100.0, int=_i32(text) if is_int else None, sign=text[0] in "+-", **kw)


def string(value, quote='"', **kw):
    esc = value.replace("\\", "\\\\").replace(quote, "\\" + quote).replace("\n", "\\a ")
    return T("str", value, quote + esc + quote, **kw)


def simple(k, **kw):
    return T(k, None, k, **kw)


def func(name, **kw):
    return T("func", name, name + "(", **kw)


# ---------------------------------------------------------------- generator


IDENTS = ["a", "b", "c1", "foo", "bar-baz", "x_y", "-moz-x", "main", "red", "auto", "none", "solid", "i😀"]
ESCAPED_IDENTS = [("a.b", "a\\.b"), ("123", "\\31 23"), ("café", "caf\\e9 "), ("a b", "a\\ b"), ("x:y", "x\\:y")]
# (`p--x`, `a-b--c`, `--x`: names that begin with a configured prefix plus `--` are class names like any other)
CLASSES = ["a", "b", "c", "item", "btn-primary", "x_1", "中", "a-b", "😀x", "b😀", "p--x", "p--", "a-b--c", "--x", "前缀--y"]
# (`RPX` / `Rpx` are not generated: CSS units are ASCII case-insensitive, the property spells the unit `rpx`)
UNITS = ["px", "em", "rem", "vh", "vw", "deg", "s", "ms", "fr", "rpxx", "erpx", "rp", "x", "PX", "Em"]
PSEUDO = ["hover", "first-child", "before", "active", "root"]
PROPS = ["color", "margin", "width", "z-index", "font", "background", "--x", "--my-var", "transform", "grid-template-columns", "content", "line-height"]
INT_TEXTS = ["0", "1", "2", "7", "10", "100", "255", "999", "1000", "65535", "65536", "99999", "100000", "999999", "1000000", "9999999", "16777215", "16777216", "16777217", "2147483647", "-1", "-2147483648", "+5", "123456", "1234567", "12345678", "-1234567", "-9999999", "-16777217", "+33554433", "99999999", "-123456789"]
# integers outside the i32 range: not promised exact, but their value survives to single precision
BIG_TEXTS = ["2147483648", "-2147483649", "4294967296", "99999999999", "1630052410030989218764", "-99999999999999", "12345678901234567890", "+3000000000"]
FLOAT_TEXTS = ["0.5", ".5", "1.5", "0.25", "3.14159", "0.1234567", "12.345678", "1e3", "1.5e-3", "2E2", "0.000001", "100.5", "-0.5", "+.75", "0.1", "0.333333", "99.9999", "1234.5678", "0.0", "-0.0"]
RPX_TEXTS = ["0", "1", "2", "7.5", "10", "75", "100", "375", "750", "1.5", "0.5", ".5", "-10", "+20", "1e2", "33.3333", "12345", "0.01", "999999", "7", "3", "1234567", "-9999999", "16777217", "30000000", "2147483647", "-2147483648", "1e9", "1e37", "-3e38", "2.5e37", "99999999999"]


class Gen:
    def __init__(self, rng, opts=None):
        self.r = rng
        self.next_group = 0
        self.has_host = False
        self.n_class = 0
        self.n_rpx = 0

    # --- small helpers
    def pick(self, xs):
        return xs[self.r.randrange(len(xs))]

    def chance(self, p):
        return self.r.random() < p

    # --- selectors (ctx='sel')
    def compound(self, depth):
        toks = []
        r = self.r.random()
        if r < 0.35:
            toks.append(ident(self.pick(IDENTS), ctx="sel"))
        elif r < 0.42:
            toks.append(delim("*", ctx="sel"))
        n = self.r.randrange(0, 3) + (1 if not toks else 0)
        for _ in range(n):
            q = self.r.random()
            if q < 0.5:
                toks.append(delim(".", ctx="sel", wsmean="mustnot" if toks else "free"))
                name = self.pick(CLASSES)
                if self.chance(0.06):
                    v, text = self.pick(ESCAPED_IDENTS)
                    toks.append(ident(v, text, ctx="sel", cls=True, wsmean="mustnot"))
                else:
                    toks.append(ident(name, ctx="sel", cls=True, wsmean="mustnot"))
                self.n_class += 1
            elif q < 0.6:
                name = self.pick(IDENTS)
                toks.append(T("idhash", name, "#" + name, ctx="sel", wsmean="mustnot" if toks else "free"))
            elif q < 0.72:
                toks.extend(self.attr_selector(bool(toks)))
            elif q < 0.86:
                toks.append(simple(":", ctx="sel", wsmean="mustnot" if toks else "free"))
                if self.chance(0.3):
                    toks.append(simple(":", ctx="sel", wsmean="mustnot"))
                toks.append(ident(self.pick(PSEUDO), ctx="sel", wsmean="mustnot"))
            elif depth > 0:
                toks.extend(self.pseudo_function(depth - 1, bool(toks)))
            else:
                toks.append(delim(".", ctx="sel", wsmean="mustnot" if toks else "free"))
                toks.append(ident(self.pick(CLASSES), ctx="sel", cls=True, wsmean="mustnot"))
                self.n_class += 1
        return toks

    def attr_selector(self, attached):
        toks = [simple("[", ctx="sel", wsmean="mustnot" if attached else "free")]
        toks.append(ident(self.pick(["href", "data-x", "type", "class", "lang"]), ctx="sel"))
        if self.chance(0.7):
            op = self.pick(["=", "~=", "|=", "^=", "$=", "*="])
            toks.append(delim("=", ctx="sel") if op == "=" else simple(op, ctx="sel"))
            if self.chance(0.6):
                toks.append(string(self.pick(["x", ".a", "a b", "1rpx", "#h", ".item"]), self.pick(['"', "'"]), ctx="sel"))
            else:
                toks.append(ident(self.pick(["x", "en", "item"]), ctx="sel"))
            if self.chance(0.2):
                toks.append(ident(self.pick(["i", "s"]), ctx="sel", ws=True, wsmean="free"))
        toks.append(simple("]", ctx="sel"))
        return toks

    def pseudo_function(self, depth, attached):
        toks = [simple(":", ctx="sel", wsmean="mustnot" if attached else "free")]
        # (`:host-context(...)` and `:hostile` are not `:host`)
        kind = self.pick(["not", "is", "where", "has", "nth-child", "nth-of-type", "slotted", "lang", "nth-child-of", "host-context", "host-context"])
        if kind == "slotted":
            toks.append(simple(":", ctx="sel", wsmean="mustnot"))
            toks.append(func("slotted", ctx="sel", wsmean="mustnot"))
            toks.extend(self.compound(0))
        elif kind == "lang":
            toks.append(func("lang", ctx="sel", wsmean="mustnot"))
            toks.append(ident(self.pick(["en", "zh-CN"]), ctx="sel"))
        elif kind in ("nth-child", "nth-of-type", "nth-child-of"):
            toks.append(func("nth-child" if kind != "nth-of-type" else kind, ctx="sel", wsmean="mustnot"))
            toks.extend(self.an_plus_b())
            if kind == "nth-child-of":
                toks.append(ident("of", ctx="sel", ws=True, wsmean="must"))
                sub = self.selector_list(depth, 2)
                sub[0].ws = True
                sub[0].wsmean = "must"
                toks.extend(sub)
        else:
            toks.append(func(kind, ctx="sel", wsmean="mustnot"))
            toks.extend(self.selector_list(depth, 2))
        toks.append(simple(")", ctx="sel"))
        return toks

    def an_plus_b(self):
        gid = ("anb", self.next_group)
        self.next_group += 1
        form = self.pick(["odd", "even", "3", "2n", "2n+1", "-n+3", "n", "2n-1", "+3n-2", "-2n+0"])
        toks = []
        if form in ("odd", "even", "n"):
            toks = [ident(form, ctx="sel")]
        elif form == "3":
            toks = [number("3", ctx="sel")]
        elif form == "2n":
            toks = [dimension("2", "n", ctx="sel")]
        elif form == "2n+1":
            toks = [dimension("2", "n", ctx="sel"), number("+1", ctx="sel", wsmean="free")]
        elif form == "-n+3":
            toks = [ident("-n", ctx="sel"), number("+3", ctx="sel")]
        elif form == "2n-1":
            toks = [dimension("2", "n-1", ctx="sel")]
        elif form == "+3n-2":
            toks = [dimension("+3", "n-2", ctx="sel")]
        elif form == "-2n+0":
            toks = [dimension("-2", "n", ctx="sel"), number("+0", ctx="sel")]
        for t in toks:
            t.group = gid

        return toks

    def complex_selector(self, depth):
        toks = self.compound(depth)
        for _ in range(self.r.randrange(0, 3)):
            comb = self.pick([" ", " ", " ", ">", "+", "~"])
            nxt = self.compound(depth)
            if comb == " ":
                nxt[0].ws = True
                nxt[0].wsmean = "must"  # descendant combinator
            else:
                c = delim(comb, ctx="sel", ws=self.chance(0.5))
                toks.append(c)
                nxt[0].ws = self.chance(0.5)
                nxt[0].wsmean = "free"
            toks.extend(nxt)
        return toks

    def selector_list(self, depth, maxn=3):
        toks = self.complex_selector(depth)
        for _ in range(self.r.randrange(0, maxn)):
            toks.append(simple(",", ctx="sel", ws=self.chance(0.2)))
            nxt = self.complex_selector(depth)
            nxt[0].ws = self.chance(0.6)
            nxt[0].wsmean = "free"
            toks.extend(nxt)
        return toks

    # --- values (ctx='value')
    def numeric(self, allow_rpx=True):
        r = self.r.random()
        if allow_rpx and r < 0.3:
            self.n_rpx += 1
            return dimension(self.pick(RPX_TEXTS), "rpx")
        if r < 0.5:
            return number(self.pick(INT_TEXTS))
        if r < 0.515:
            text = self.pick(BIG_TEXTS)
            return number(text) if self.chance(0.5) else dimension(text, "px")
        if r < 0.62:
            return number(self.pick(FLOAT_TEXTS))
        if r < 0.85:
            text = self.pick(INT_TEXTS + FLOAT_TEXTS)
            unit = self.pick(UNITS)
            if unit[0] in "eE" and ("e" not in text.lower()) and text[-1].isdigit():
                # `1e` + `rpx`-like units would read as an exponent: keep the number/unit boundary unambiguous
                unit = "px"
            return dimension(text, unit)
        return percentage(self.pick(["0", "50", "100", "33.3333", "-10", "12.5", "1e1", "1234567", "-2147483647", "16777217", "+1000001", "999999"]))

    def calc(self, depth, name=None):
        """A calc() expression; everything nested in it (parentheses, math functions, var() fallbacks) is
        still calculation context: whitespace around + and - is meaningful at every depth."""
        toks = [func(name or self.pick(["calc", "calc", "calc", "calc", "CALC", "Calc"]))]
        toks.extend(self.calc_sum(depth, 2))
        toks.append(simple(")"))
        return toks

    def calc_operand(self, depth, nest):
        r = self.r.random()
        if depth > 0 and r < 0.2:
            return self.calc(depth - 1)
        if nest > 0 and r < 0.35:
            return [T("(", None, "(")] + self.calc_sum(depth, nest - 1) + [simple(")")]
        if nest > 0 and r < 0.45:
            toks = [func(self.pick(["min", "max", "clamp"]))]
            for j in range(self.r.randrange(1, 4)):
                if j:
                    toks.append(simple(",", ws=self.chance(0.3)))
                sub = self.calc_sum(depth, nest - 1)
                sub[0].ws = self.chance(0.5)
                toks.extend(sub)
            toks.append(simple(")"))
            return toks
        if r < 0.52:
            toks = [func("var"), ident(self.pick(["--x", "--my-var"]))]
            if nest > 0 and self.chance(0.4):
                toks.append(simple(","))
                sub = self.calc_sum(depth, nest - 1)
                sub[0].ws = self.chance(0.5)
                toks.extend(sub)
            toks.append(simple(")"))
            return toks
        if r < 0.56:
            return [ident(self.pick(["pi", "e", "infinity"]))]
        return [self.numeric()]

    def calc_sum(self, depth, nest):
        toks = self.calc_operand(depth, nest)
        for _ in range(self.r.randrange(0 if nest < 2 else 1, 3)):
            op = self.pick(["+", "-", "*", "/"])
            toks.append(delim(op, ws=True, wsmean="must" if op in "+-" else "free"))
            nxt = self.calc_operand(depth, nest)
            nxt[0].ws = True
            nxt[0].wsmean = "must" if op in "+-" else "free"
            toks.extend(nxt)
        return toks

    def value_tokens(self, depth=2):
        toks = []
        n = self.r.randrange(1, 5)
        for i in range(n):
            r = self.r.random()
            part = []
            if r < 0.25:
                part = [self.numeric()]
            elif r < 0.4:
                part = [ident(self.pick(IDENTS))]
            elif r < 0.47:
                part = self.calc(depth)
            elif r < 0.53:
                part = [func(self.pick(["var", "rgb", "min", "translate", "f"]))]
                k = self.r.randrange(1, 4)
                for j in range(k):
                    if j:
                        part.append(simple(",", ws=self.chance(0.3)))
                    inner = self.numeric() if self.chance(0.7) else ident(self.pick(["--x", "a", "red"]))
                    inner.ws = self.chance(0.5)
                    part.append(inner)
                part.append(simple(")"))
            elif r < 0.58:
                part = [string(self.pick(["x", "a b", ".c", "7rpx", "it's", 'q"q', "中", "</style>", "", "😀", "a😀😀b"]), self.pick(['"', "'"]))]
            elif r < 0.63:
                u = self.pick(["a.png", "x/y.png?z=1", "data:image/png;base64,AAAA"])
                part = [T("url", u, "url(" + u + ")")]
            elif r < 0.67:
                part = [func("url"), string(self.pick(["a b.png", "x'y.png"])), simple(")")]
            elif r < 0.73:
                h = self.pick(["fff", "FFF", "000000", "abcdef", "123", "1a2b3c", "00ff0080"])
                part = [T("idhash" if not h[0].isdigit() else "hash", h, "#" + h)]
            elif r < 0.77:
                # `.5`-like and `a.b`-like spellings inside values are not class selectors
                part = self.pick([[number(".5")], [ident("a"), delim(".", wsmean="mustnot"), ident("b", wsmean="mustnot")], [delim("."), ident("x", wsmean="mustnot")]])
            elif r < 0.8:
                part = [ident("a"), delim("/", ws=self.chance(0.5)), self.numeric()]
            elif r < 0.83:
                v, text = self.pick(ESCAPED_IDENTS)
                part = [ident(v, text)]
            elif r < 0.86:
                part = [simple("["), ident(self.pick(["a", "full-start"])), simple("]")]
            elif r < 0.875:
                part = [simple("("), self.numeric(), simple(")")]
            elif r < 0.9:
                # a fragment of a calculation outside any math function (a custom property that is substituted into a
                # calc() later, a var() fallback, a function this compiler does not know): white space around `+` and
                # `-` is as meaningful as inside calc()
                def term():
                    return [self.numeric()] if self.chance(0.7) else [func("env"), ident("safe-area-inset-top"), simple(")")]
                op = self.pick(["+", "-"])
                a, b = term(), term()
                sumtoks = a + [delim(op, ws=True, wsmean="must")] + b
                b[0].ws = True
                b[0].wsmean = "must"
                form = self.pick(["bare", "bare", "var", "unknown-fn"])
                if form == "bare":
                    part = sumtoks
                elif form == "var":
                    a[0].ws = self.chance(0.5)
                    part = [func("var"), ident("--x"), simple(",")] + sumtoks + [simple(")")]
                else:
                    a[0].ws = self.chance(0.5)
                    part = [func(self.pick(["calc-size", "random", "progress", "-o-calc", "anchor-size"])), ident("auto"), simple(",")] + sumtoks + [simple(")")]
            else:
                part = [ident(self.pick(IDENTS))]
            if i:
                part[0].ws = True
            toks.extend(part)
        if self.chance(0.08):
            toks.append(delim("!", ws=self.chance(0.5)))
            toks.append(ident("important"))
        return toks

    def unicode_range(self):
        gid = ("urange", self.next_group)
        self.next_group += 1
        form = self.pick(["U+26", "U+0-7F", "U+0025-00FF", "U+4??", "u+1F600", "U+1E00-1EFF", "U+0E01-0E5B", "U+2E80-2EFF", "U+1E3", "U+00e9", "U+1F600-1F64F", "U+E000-F8FF", "u+0-10FFFF", "U+1e9", "U+2e5-2e9", "U+??????", "U+1e??"])
        # spelt raw; cssparser tokenises it as ident/number/dimension pieces (annotated as one verbatim group)
        t = T("raw-urange", form, form, group=gid)
        return [t]

    def declarations(self, depth=2, allow_urange=False):
        decls = []
        for _ in range(self.r.randrange(0, 4)):
            prop = self.pick(PROPS)
            toks = [ident(prop, ctx="value"), simple(":", ws=self.chance(0.1))]
            if allow_urange and self.chance(0.5):
                toks[0] = ident("unicode-range")
                vt = self.unicode_range()
            else:
                vt = self.value_tokens(depth)
            vt[0].ws = self.chance(0.7)
            toks.extend(vt)
            decls.append(toks)
        return decls

    # --- rules
    def qualified(self, depth):
        if self.chance(0.01):
            # `: host` (whitespace after the colon) is not the `:host` pseudo-class: an ordinary (invalid) rule
            return {"t": "rule", "sel": [simple(":", ctx="sel"), ident("host", ctx="sel", ws=True, wsmean="must")], "decls": self.declarations()}
        return {"t": "rule", "sel": self.selector_list(depth), "decls": self.declarations()}

    def host_rule(self):
        self.has_host = True
        r = self.r.random()
        sp = self.pick(["host"] * 8 + ["HOST", "Host"])
        if r < 0.7:
            return {"t": "host", "decls": self.declarations(allow_urange=self.chance(0.25)), "combo": None, "host_spelling": sp}
        combo = self.pick(["func", "class", "descendant", "list", "attr", "attr-desc", "pseudo", "id", "pre-list", "pre-class", "pre-star", "pre-desc", "in-is", "pre-list-2", "in-is-first", "in-not-desc", "in-has", "pre-list-func", "in-not-func", "pre-desc-func"])
        return {"t": "host", "decls": self.declarations(), "combo": combo, "host_spelling": sp}

    def at_rule(self, depth, sel_depth):
        x = self._at_rule(depth, sel_depth)
        if x.get("body") == "rules" and x["name"] != "starting-style" and self.chance(0.1):
            # the same at-rule directly inside itself (identical preludes), around a `:host` rule: the wrappers
            # replayed for the low-priority output are two, not one
            import copy
            inner = {"t": "at", "name": x["name"], "pre": copy.deepcopy(x["pre"]), "body": "rules", "rules": [self.host_rule()] + x["rules"]}
            if "kw_spelling" in x:
                inner["kw_spelling"] = x["kw_spelling"]
            x = dict(x, rules=[inner] + ([self.qualified(sel_depth)] if self.chance(0.3) else []))
        return x

    def _at_rule(self, depth, sel_depth):
        kind = self.pick(["media", "media", "supports", "document", "layer", "container", "scope", "starting-style", "keyframes", "font-face", "statement", "page"])
        if kind == "starting-style":
            return {"t": "at", "name": "starting-style", "pre": [], "body": "rules", "rules": self.rules(depth - 1, sel_depth, in_group=True)}
        if kind == "media":
            pre = []
            if self.chance(0.5):
                pre.append(ident(self.pick(["screen", "print", "all"]), ctx="prelude", ws=True))
                if self.chance(0.6):
                    pre.append(ident("and", ctx="prelude", ws=True))
            if not pre or pre[-1].v == "and":
                pre.append(T("(", None, "(", ctx="prelude", ws=True))
                pre.append(ident(self.pick(["min-width", "width", "max-height"]), ctx="prelude"))
                pre.append(simple(":", ctx="prelude"))
                n = self.numeric()
                n.ctx = "prelude-block"
                n.ws = self.chance(0.5)
                pre.append(n)
                pre.append(simple(")", ctx="prelude"))
            return {"t": "at", "name": "media", "pre": pre, "body": "rules", "rules": self.rules(depth - 1, sel_depth, in_group=True)}
        if kind == "supports":
            pre = [T("(", None, "(", ctx="prelude", ws=True), ident("display", ctx="prelude"), simple(":", ctx="prelude"), ident("grid", ctx="prelude", ws=self.chance(0.5)), simple(")", ctx="prelude")]
            if self.chance(0.3):
                # a declaration value with a dotted token: not a class selector
                pre = [T("(", None, "(", ctx="prelude", ws=True), ident("font", ctx="prelude"), simple(":", ctx="prelude"), T("dim", None, "1px", num=1.0, int=1, unit="px", ctx="prelude", ws=True), ident("a", ctx="prelude", ws=True, wsmean="must"), delim(".", ctx="prelude", wsmean="mustnot"), ident("b", ctx="prelude", wsmean="mustnot"), simple(")", ctx="prelude")]
            if self.chance(0.25):
                # ... and selector(), which does hold a selector
                pre += [ident("and", ctx="prelude", ws=True), func("selector", ctx="prelude", ws=True, wsmean="must"), delim(".", ctx="prelude"), ident(self.pick(CLASSES), ctx="prelude", cls=True, wsmean="mustnot"), simple(")", ctx="prelude")]
                self.n_class += 1
            if self.chance(0.12):
                # selector() below two levels of plain parentheses is a selector all the same
                pre = [T("(", None, "(", ctx="prelude", ws=True), T("(", None, "(", ctx="prelude"), func("selector", ctx="prelude"), delim(".", ctx="prelude"), ident(self.pick(CLASSES), ctx="prelude", cls=True, wsmean="mustnot"), simple(")", ctx="prelude"), simple(")", ctx="prelude"), ident("and", ctx="prelude", ws=True), T("(", None, "(", ctx="prelude", ws=True), ident("display", ctx="prelude"), simple(":", ctx="prelude"), ident("grid", ctx="prelude", ws=True), simple(")", ctx="prelude"), simple(")", ctx="prelude")]
                self.n_class += 1
            return {"t": "at", "name": "supports", "pre": pre, "body": "rules", "rules": self.rules(depth - 1, sel_depth, in_group=True)}
        if kind == "document":
            pre = [func("url-prefix", ctx="prelude", ws=True), string("https://x"), simple(")", ctx="prelude")]
            if self.chance(0.4):
                pre = [func("domain", ctx="prelude", ws=True), ident("mozilla", ctx="prelude"), delim(".", ctx="prelude", wsmean="mustnot"), ident("org", ctx="prelude", wsmean="mustnot"), simple(")", ctx="prelude")]
            # (the vendor-prefixed form is the one that shipped)
            return {"t": "at", "name": self.pick(["document", "-moz-document"]), "pre": pre, "body": "rules", "rules": self.rules(depth - 1, sel_depth, in_group=True)}
        if kind == "layer":
            pre = self.pick([[ident("base", ctx="prelude", ws=True)], [ident("theme", ctx="prelude", ws=True)], [], [ident("fw", ctx="prelude", ws=True), delim(".", ctx="prelude", wsmean="mustnot"), ident("ui", ctx="prelude", wsmean="mustnot")]])
            return {"t": "at", "name": "layer", "pre": pre, "body": "rules", "rules": self.rules(depth - 1, sel_depth, in_group=True)}
        if kind == "container":
            pre = [ident("card", ctx="prelude", ws=True), T("(", None, "(", ctx="prelude", ws=True), ident("min-width", ctx="prelude"), simple(":", ctx="prelude")]
            n = self.numeric()
            n.ctx = "prelude-block"
            pre.extend([n, simple(")", ctx="prelude")])
            if self.chance(0.3):
                pre += [ident("and", ctx="prelude", ws=True), func("style", ctx="prelude", ws=True, wsmean="must"), ident("--theme", ctx="prelude"), simple(":", ctx="prelude"), ident("a", ctx="prelude", ws=True), delim(".", ctx="prelude", wsmean="mustnot"), ident("b", ctx="prelude", wsmean="mustnot"), simple(")", ctx="prelude")]
            return {"t": "at", "name": "container", "pre": pre, "body": "rules", "rules": self.rules(depth - 1, sel_depth, in_group=True)}
        if kind == "scope":
            pre = [T("(", None, "(", ctx="prelude", ws=True), delim(".", ctx="sel"), ident(self.pick(CLASSES), ctx="sel", cls=True, wsmean="mustnot"), simple(")", ctx="prelude")]
            self.n_class += 1
            return {"t": "at", "name": "scope", "pre": pre, "body": "rules", "rules": self.rules(depth - 1, sel_depth, in_group=True)}
        if kind == "keyframes":
            pre = [ident(self.pick(["spin", "fade"]), ctx="prelude", ws=True)]
            frames = []
            for _ in range(self.r.randrange(1, 4)):
                sel = [self.pick([ident("from", ctx="kf"), ident("to", ctx="kf"), percentage("50", ctx="kf"), percentage("0", ctx="kf"), percentage("12.5", ctx="kf")])]
                frames.append({"sel": sel, "decls": self.declarations(1)})
            return {"t": "at", "name": "keyframes", "pre": pre, "body": "frames", "frames": frames}
        if kind == "font-face":
            return {"t": "at", "name": "font-face", "pre": [], "body": "decls", "decls": self.declarations(1, allow_urange=True)}
        if kind == "page":
            return {"t": "at", "name": "page", "pre": [simple(":", ctx="prelude", ws=True), ident("first", ctx="prelude", wsmean="mustnot")], "body": "decls", "decls": self.declarations(1)}
        # statement at-rule
        name = self.pick(["charset", "namespace", "layer", "a"])
        if name == "charset":
            pre = [string("utf-8", ctx="prelude", ws=True)]
        elif name == "namespace":
            pre = [ident("svg", ctx="prelude", ws=True), T("url", "http://x", "url(http://x)", ctx="prelude", ws=True)]
        elif name == "layer":
            pre = [ident("a", ctx="prelude", ws=True), simple(",", ctx="prelude"), ident("b", ctx="prelude", ws=True)]
        else:
            pre = [ident("x", ctx="prelude", ws=True)]
            if self.chance(0.3):
                # a bare dimension in an at-rule prelude (not inside a block): see finding rpx-in-bare-at-prelude
                d = dimension(self.pick(["75", "10"]), "rpx", ctx="prelude-bare", ws=True)
                pre.append(d)
        return {"t": "at", "name": name, "pre": pre, "body": None}

    def import_rule(self):
        form = self.pick(["string", "string", "url-func", "url-token"])
        path = self.pick(["a.wxss", "./b/c.wxss", "../x y.wxss", "a*/b.css", "中/文.wxss", "a%20b.css", "q'x.css", "a\"b.css", "/abs/p.css", "a?b=1&c=2", "sp ace.css", " lead.css", "trail.css ", "\u3000wide.css", "\ttab.css\t", " "])
        conds = []
        if self.chance(0.35):
            # `layer(name)`, a dotted name (not a class selector), or the bare keyword (anonymous layer)
            conds.append(("layer", self.pick(["base", "theme", "base", "a.b", "fw.ui.x", None])))
        if self.chance(0.3):
            conds.append(("supports", None))
        media = None
        if self.chance(0.45):
            media = self.pick(["screen", "paren", "screen-and-paren", "all", "all-and-paren", "not-all", "only-screen-and-paren", "list", "paren-and-paren", "general-enclosed", "screen-and-general"])
        if conds and conds[-1] != ("layer", None) and self.chance(0.12):
            # after layer(...) / supports(...) the identifier `layer` is a media type, not the keyword
            media = self.pick(["layer-type", "layer-type-and-paren"])
        x = {"t": "import", "form": form, "path": path, "conds": conds, "media": media, "supports_variant": self.pick([0, 0, 1, 1, 2])}
        if self.chance(0.12):
            # function names are ASCII case-insensitive
            x["fn_spelling"] = {"layer": self.pick(["LAYER", "Layer"]), "supports": self.pick(["SUPPORTS", "Supports"])}
        q = self.r.random()
        if q < 0.06:
            x["kw_spelling"] = "IMPORT"
        elif q < 0.1:
            x["kw_spelling"] = "Import"
        return x

    def rules(self, depth, sel_depth, top=False, allow_host=True, in_group=False):
        out = []
        for _ in range(self.r.randrange(1 if top else 0, 5 if top else 4)):
            r = self.r.random()
            if not top and getattr(self, "allow_imports", False) and self.chance(0.05):
                # an import nested in a conditional group rule: rewritten where it stands
                out.append(self.import_rule())
            if in_group and self.chance(0.05):
                # declarations written directly inside a group rule (`@scope (.card) { padding: 10rpx; .a {} }`)
                out.append({"t": "declrun", "decls": self.declarations(1)})
            if top and getattr(self, "allow_cdo", False) and self.chance(0.04):
                # `<!--` and `-->` between top-level rules are ignored by CSS
                out.append({"t": "cdo", "which": self.pick(["cdo", "cdc"])})
            if depth > 0 and r < 0.3:
                out.append(self.at_rule(depth, sel_depth))
            elif allow_host and r < 0.42:
                out.append(self.host_rule())
            else:
                out.append(self.qualified(sel_depth))
        if in_group and self.chance(0.06):
            # ... and as the last thing of the block, where the last declaration may lack its semicolon
            # (`@media (min-width: 1px) { .a {} margin: 5rpx }`)
            out.append({"t": "declrun", "decls": self.declarations(1), "last": True})
        return out

    def stylesheet(self, imports=True):
        rules = []
        self.allow_imports = imports
        self.allow_cdo = True
        if imports:
            for _ in range(self.r.randrange(0, 3)):
                rules.append(self.import_rule())
        if imports and self.chance(0.06):
            # nothing but `@layer` blocks in front of late imports: a layer block is an "other rule" like any
            for _ in range(self.r.randrange(1, 3)):
                rules.append({"t": "at", "name": "layer", "pre": self.pick([[ident("base", ctx="prelude", ws=True)], []]), "body": "rules", "rules": self.rules(1, 1, in_group=True)})
            for _ in range(self.r.randrange(1, 3)):
                rules.append(self.import_rule())
            return rules
        rules.extend(self.rules(self.r.randrange(0, 5), self.r.randrange(0, 4), top=True))
        if imports and self.chance(0.18):
            # imports after other rules: still rewritten, but each one is flagged
            for _ in range(self.r.randrange(1, 4)):
                rules.append(self.import_rule())
                if self.chance(0.2):
                    rules.append({"t": "at", "name": "charset", "pre": [string("utf-8", '"', ctx="prelude", ws=True)], "body": None})
            rules.extend(self.rules(1, 1))
        return rules


# ---------------------------------------------------------------- spelling (input text)


def spell_ws(r, must):
    x = r.random()
    if x < 0.5:
        return " "
    if x < 0.65:
        return "\n  "
    if x < 0.75:
        return "\t"
    if x < 0.88:
        return " /* c */ "
    if x < 0.94:
        return "/**/" if not must else " /**/"
    return "  \n"


def spell_tokens(r, toks, out):
    """Append the spelling of a token list; record each token's (line, col16) in tok.src."""
    for t in toks:
        if t.ws:
            out.add(spell_ws(r, True))
        out.tok(t)


class Out:
    def __init__(self):
        self.parts = []
        self.line = 0
        self.col = 0

    def add(self, s):
        self.parts.append(s)
        for ch in s:
            if ch == "\n":
                self.line += 1
                self.col = 0
            else:
                self.col += 2 if ord(ch) > 0xFFFF else 1

    def tok(self, t):
        t.src = (self.line, self.col)
        self.add(t.text)

    def text(self):
        return "".join(self.parts)
