"""C01 — both compilers are total: no panic, abort, hang or runaway allocation.

Events (per input x phase, from `gev total`): outcome in {ok, panic(site), stall(site), fuel, alloc, crash(signal)},
logical step counters from the event tap, peak heap from the counting allocator, number of diagnostics.
Oracle: outcome == ok; steps <= A*(n+64)^2; peak <= B*(n+64)*(d+2)+C; diagnostics <= 4*(n+1); fitted growth
exponents on size ladders <= 2.3.  Verdicts are logical (steps, bytes), never wall clock."""
import glob
import json
import math
import os
import random
import re
import subprocess
import sys

import common
from common import log, REPO, VERIF
import cssgen
import csscheck

A_STEPS = 2.0  # steps <= A*(n+64)^2      (calibrated: the largest observed ratio on the fixed tree is 0.071, x28)
B_HEAP = 30000.0  # peak  <= B*(n+64)*(d+2)+C (largest observed ratio is 1493, reached by tiny inputs through one-off table initialisation; x20)
C_HEAP = 4 << 20
GROWTH_MAX = 2.3

EVIL = ["\x00", "\t", "\r", "\u0085", "\u00a0", "\u1680", "\u2028", "\u3000", "\ufeff", "\U0001F600", "<", ">", "/", "{", "}", "&", "#", '"', "'", "\\", "0", "9", "x", "e", ".", "=", ":", "-", "!", "?", "(", ")", "[", "]", ",", ";", " ", "\n"]
DICT_WXML = ["<", ">", "/>", "</", "{{", "}}", "&#x", "&#", "&amp;", "</wxs", "<wxs module=\"m\">", "<!--", "-->", "<!", "<template name=\"", "<template is=\"", "<include src=\"", "<import src=\"", "<slot ", "<block ", " wx:if=\"", " wx:elif=", " wx:else", " wx:for=\"{{", " wx:key=", " wx:for-item=\"", " model:", " bind:", " change:", " slot:", " data-", " mark:", "...", "??", "?.", "0x", "0X", "1e", "1e-", "e999", "07", "08", "'", '"', "\\", "\\u", "\\x", "\\u{", "(", ")", "[", "]", "{", "}", ",", ":", "?", "typeof ", "void ", " instanceof ", "===", ">>>", "\u00a0", "\u2028", "\ufeff", "\x00", "\U0001F600", "=", " = ", "99999999999999999999", "0xfffffffffffffffffffff", "0777777777777777777777777"]
DICT_CSS = ["{", "}", "(", ")", "[", "]", ";", ":", ",", "@import ", "@media ", "@supports ", "@layer ", "@keyframes ", "@font-face", ":host", ":host(", ".a", "#a", "url(", "url(\"", "calc(", "rpx", "1rpx", "/*", "*/", "\\", "\"", "'", "\n", "!important", "U+0-7F", "2n+1", "1e999rpx", "-0rpx", "+.5e-3rpx", "99999999999999999999rpx", "<!--", "-->", "\x00", "\u00a0", "\U0001F600", "\\31 ", "\\", "@charset \"", "layer(", "supports(", "~=", "|=", "$=", "*=", "^=", "||", "%", "1e", "e-", "--x:", "!"]

CSS_OPTION_SETS = []
for prefix in (None, "", "p", "前"):
    for ratio in (750.0, 1.0, 1e-3, 0.0, -1.0, "NaN", "inf"):
        o = {"rpx_ratio": ratio}
        if prefix is not None:
            o["class_prefix"] = prefix
        CSS_OPTION_SETS.append(o)
CSS_OPTION_SETS += [{"class_prefix": "p", "class_prefix_sign": "S", "import_sign": "I", "convert_host": True, "host_is": "h"}, {"import_sign": "", "convert_host": True}, {"class_prefix_sign": "*/", "import_sign": "*/x"}]
PATHS = ["a", "", "a/b", "../x", "a'b", "a\\b", "a\nb", "p" * 300]


def in_domain_wxml(s):
    """Conservative depth filter (over-approximates every recursion depth of the SUT; DESIGN.md 5.1)."""
    depth = 0
    maxdepth = 0
    i = 0
    n = len(s)
    while i < n:
        c = s[i]
        if c == "<" and i + 1 < n:
            if s[i + 1] == "/":
                depth = max(0, depth - 1)
            elif s[i + 1].isalpha() or s[i + 1] == "_":
                # a tag that visibly ends in `/>` (no quote in between, so the `>` really is the tag end) opens no level
                j = s.find(">", i)
                seg = s[i:j + 1] if j >= 0 else ""
                if not (seg.endswith("/>") and '"' not in seg and "'" not in seg and "{" not in seg):
                    depth += 1
                    maxdepth = max(maxdepth, depth)
        i += 1
    if maxdepth > 64:
        return False
    # every binding region: count of nesting / operator characters
    for m in re.finditer(r"\{\{(.*?)(\}\}|$)", s, re.S):
        body = m.group(1)
        cnt = sum(body.count(ch) for ch in "([{!~+-?*/%<>=&|^,.:") + body.count("typeof") + body.count("void") + body.count("instanceof")
        if cnt > 64:
            return False
    # per text / attribute value: number of bindings
    for seg in re.split(r"[<>\"']", s):
        if seg.count("{{") > 60:
            return False
    return True


def css_depth(s):
    """Block nesting depth as the CSS tokeniser sees it: a closer ends a block only when it matches the
    innermost open one (a mismatched closer is an error token and the block stays open); brackets inside
    strings and comments are text. Where the two readings of a quote could differ (an unterminated
    string ends at the newline) openers still count, so the result over-approximates."""
    stack = []
    m = 0
    pair = {")": "(", "]": "[", "}": "{"}
    i, n = 0, len(s)
    while i < n:
        ch = s[i]
        if ch == "/" and s.startswith("/*", i):
            j = s.find("*/", i + 2)
            i = n if j < 0 else j + 2
            continue
        if ch in "\"'":
            j = i + 1
            opened = 0
            while j < n and s[j] != ch and s[j] not in "\n\r\f":
                if s[j] == "\\":
                    j += 1
                elif s[j] in "([{":
                    opened += 1
                j += 1
            if j >= n or s[j] != ch:
                # bad string: what follows the line break is tokenised again; count its openers as open
                for _ in range(opened):
                    stack.append("?")
                m = max(m, len(stack))
            i = j + 1
            continue
        if ch == "\\":
            i += 2
            continue
        if ch in "([{":
            stack.append(ch)
            m = max(m, len(stack))
        elif ch in ")]}":
            if stack and stack[-1] == pair[ch]:
                stack.pop()
        i += 1
    return m


def in_domain_css(s):
    return css_depth(s) <= 64


def nesting_depth(s, kind):
    if kind == "css":
        return css_depth(s)
    d = m = 0
    for mm in re.finditer(r"<(/?)[A-Za-z_]", s):
        if mm.group(1):
            d = max(0, d - 1)
        else:
            d += 1
            m = max(m, d)
    return min(m, 64)


def repo_literals():
    """WXML / CSS literals of the working tree's own test modules (extracted at run time)."""
    wxml, css = [], []
    for f in glob.glob(os.path.join(REPO, "glass-easel-template-compiler/src/**/*.rs"), recursive=True) + glob.glob(os.path.join(REPO, "glass-easel-template-compiler/tests/*.rs")):
        try:
            src = open(f, encoding="utf-8").read()
        except OSError:
            continue
        for m in re.finditer(r'r#"(.*?)"#', src, re.S):
            wxml.append(m.group(1))
        for m in re.finditer(r'case!\(\s*"((?:[^"\\]|\\.)*)"', src):
            try:
                wxml.append(bytes(m.group(1), "utf-8").decode("unicode_escape").encode("latin-1", "replace").decode("utf-8", "replace"))
            except Exception:
                wxml.append(m.group(1))
    for f in glob.glob(os.path.join(REPO, "glass-easel-stylesheet-compiler/src/*.rs")):
        try:
            src = open(f, encoding="utf-8").read()
        except OSError:
            continue
        for m in re.finditer(r'r#"(.*?)"#', src, re.S):
            css.append(m.group(1))
    return [w for w in dict.fromkeys(wxml) if len(w) < 4096], [c for c in dict.fromkeys(css) if len(c) < 4096]


def literal_grammar():
    out = []
    digs = "0179afAFgzx_e."
    for p in ["", "0", "0x", "0X", ".", "0.", "1e", "1e-", "1e+", "08", "07"]:
        strs = [""]
        for length in range(1, 4):
            strs += [s + d for s in strs if len(s) == length - 1 for d in digs]
        for s in strs:
            out.append(p + s)
    for fill in "79f1":
        for length in list(range(1, 25)) + [28, 32, 40, 64, 200]:
            out += [fill * length, "0" + fill * length, "0x" + fill * length, "1." + fill * length, "." + fill * length, fill + "e" + fill * min(length, 5), fill + "e-" + fill * min(length, 5)]
    res = []
    for lit in dict.fromkeys(out):
        if lit:
            res.append('<a b="{{' + lit + '}}"/>')
            res.append("{{ " + lit + " }}")
    return res


def neighbourhood(seed_text, rng, budget):
    """Every prefix, every single-character deletion, substitutions from the evil alphabet."""
    out = []
    n = len(seed_text)
    for i in range(n + 1):
        out.append(seed_text[:i])
    for i in range(n):
        out.append(seed_text[:i] + seed_text[i + 1:])
    subs = []
    for i in range(n):
        for ch in EVIL:
            subs.append((i, ch))
    rng.shuffle(subs)
    for i, ch in subs[:budget]:
        out.append(seed_text[:i] + ch + seed_text[i + 1:])
        if rng.random() < 0.3:
            out.append(seed_text[:i] + ch + seed_text[i:])
    return out


def dict_mutants(text, rng, dictionary, k):
    out = []
    for _ in range(k):
        s = text
        for _ in range(rng.randrange(1, 5)):
            pos = rng.randrange(len(s) + 1)
            r = rng.random()
            if r < 0.3:
                s = s[:pos] + s[pos + rng.randrange(1, 8):]
            elif r < 0.8:
                s = s[:pos] + rng.choice(dictionary) + s[pos:]
            else:
                a = rng.randrange(len(s) + 1)
                s = s[:pos] + s[a:a + rng.randrange(1, 30)] + s[pos:]
        out.append(s)
    return out


LADDER_FAMILIES_WXML = {
    "attr-soup": lambda n: "<a " + "b c=\"1\" {{ x ".join([""] * 1)[:0] + ("\u00a0b=1 " * (n // 7)) + "/>",
    "open-tags": lambda n: ("<a>" * 60) + ("<b x=\"{{y}}\">t</b>" * (n // 18)) + ("</a>" * 60),
    "unclosed-bindings": lambda n: "<x>{{ a </x>" * (n // 12),
    "entities": lambda n: "&#x;&amp;&#99999999;&bogus;" * (n // 27),
    "many-attrs": lambda n: "<a " + " ".join(f"a{i}=\"{{{{v{i}}}}}\"" for i in range(n // 14)) + "/>",
    "comments": lambda n: "<!--" * (n // 4),
    "wxs-unclosed": lambda n: "<wxs module=\"m\">" + "</wxsx " * (n // 7),
    "if-chain": lambda n: "<a wx:if/>" + "<a wx:elif/>" * (n // 12) + "<a wx:else/>",
    "deep-expr": lambda n: "".join("<x>{{ " + "(" * 30 + "a" + ")" * 30 + " }}</x>" for _ in range(n // 74)),
    "long-text": lambda n: "x< &" * (n // 4),
    "end-tags": lambda n: "</a>" * (n // 4),
    "mixed-text": lambda n: ("<x>" + "a{{b}}" * 50 + "</x>") * (n // 307),
    "for-nest": lambda n: "<a wx:for=\"{{l}}\">" * 30 + "<x>{{item}}</x>" * (n // 15) + "</a>" * 30,
    "strings": lambda n: "{{ '" + "\\x4" * (n // 3) + "' }}",
}
LADDER_FAMILIES_CSS = {
    "rules": lambda n: ".a .b{width:1rpx}" * (n // 17),
    "open-blocks": lambda n: ("@media (a){" * 60) + (".a{b:c}" * (n // 7)),
    "imports": lambda n: "@import url(x) layer(a) supports(b:c) screen;" * (n // 45),
    "hosts": lambda n: "@media x{" + ":host{a:1rpx}" * (n // 13) + "}",
    "calc": lambda n: "a{b:" + "calc(1rpx + " * 60 + "1" + ")" * 60 + "}" + "c{d:calc(1 + 2)}" * (n // 16),
    "garbage": lambda n: ("}{)(][;:@" * 20 + "])}" * 20) * (n // 240),
    "strings": lambda n: "a{b:\"" + "\\" * (n // 2) + "x\"}",
    "comments": lambda n: "/*" * (n // 2),
    "selectors": lambda n: ":not(" * 60 + ".a" + ")" * 60 + "{}" + ".a.b.c" * (n // 6) + "{}",
}


# Depth ladders: one nesting construct repeated d times (d <= 62; the domain scanner drops what exceeds the
# property's nesting bound). Time, heap and output size must stay polynomial in the depth as well: a
# construct that duplicates its operand's code per level shows up as an exponent far above GROWTH_MAX.
DEPTHS = [3, 5, 8, 11, 14, 17, 20, 24, 28, 31, 40, 50, 62]


def _b(e):
    return '<a b="{{ ' + e + ' }}" wx:if="{{ ' + e + ' }}">{{ ' + e + ' }}</a><template is="t" data="{{ x: ' + e + ' }}"/><slot v="{{ ' + e + ' }}"/>'


DEPTH_FAMILIES_WXML = {
    "obj-spread": lambda d: _b("{..." * d + "a" + "}" * d),
    "obj-spread-2": lambda d: _b("{...b, k: 1, ..." * d + "a" + "}" * d),
    "arr-spread": lambda d: _b("[..." * d + "a" + "]" * d),
    "arr-spread-2": lambda d: _b("[0, ...b, ..." * d + "a" + ", 1]" * d),
    "obj-value": lambda d: _b("{k: " * d + "a" + "}" * d),
    "arr-nest": lambda d: _b("[a, " * d + "b" + "]" * d),
    "parens": lambda d: _b("(" * d + "a" + ")" * d),
    "cond-right": lambda d: _b("a ? b : " * d + "c"),
    "cond-left": lambda d: _b("(" * d + "a" + " ? b : c)" * d),
    "cond-test": lambda d: _b("(" * d + "a" + " ? b : c) ? d : e" * d),
    "cond-members": lambda d: _b("(a ? b : c)" + ".x" * d),
    "cond-in-index": lambda d: _b("a[b ? " * d + "c" + " : d]" * d),
    "index-nest": lambda d: _b("a[" * d + "0" + "]" * d),
    "member-chain": lambda d: _b("a" + ".b" * d),
    "dyn-chain": lambda d: _b("a" + "[b]" * d),
    "call-nest": lambda d: _b("f(" * d + "a" + ")" * d),
    "call-chain": lambda d: _b("f" + "(a)" * d),
    "unary": lambda d: _b("!" * d + "a"),
    "typeof": lambda d: _b("typeof " * d + "a"),
    "plus-left": lambda d: _b("a + " * d + "b"),
    "plus-right": lambda d: _b("a + (" * d + "b" + ")" * d),
    "nullish": lambda d: _b("a ?? " * d + "b"),
    "nullish-right": lambda d: _b("a ?? (" * d + "b" + ")" * d),
    "logic-mix": lambda d: _b("a && b || " * d + "c"),
    "spread-cond": lambda d: _b("{...(a ? " * d + "b" + " : c)}" * d),
    "spread-member": lambda d: _b("{..." * d + "a" + "}.x" * d),
    "arr-index": lambda d: _b("[" * d + "a" + "][0]" * d),
    "obj-spread-arr": lambda d: _b("{...[..." * d + "a" + "]}" * d),
    "text-bindings": lambda d: "<x>" + "{{a.b}}x" * d + "</x><y v='" + "{{a}}-" * d + "'/>",
    "elements": lambda d: "<a b='{{c}}'>" * d + "{{d}}" + "</a>" * d,
    "for-nest": lambda d: "".join(f'<a wx:for="{{{{ item.l }}}}" wx:for-item="i{k}" wx:key="k">' for k in range(d)) + "{{ item }}{{ index }}" + "</a>" * d,
    "for-item-chain": lambda d: "".join(f'<a wx:for="{{{{ i{k - 1}.l }}}}" wx:for-item="i{k}" model:v="{{{{ i{k}.v }}}}">' if k else '<a wx:for="{{ l }}" wx:for-item="i0">' for k in range(d)) + "</a>" * d,
    "if-nest": lambda d: '<a wx:if="{{ a }}">' * d + "{{ b }}" + "</a>" * d,
    "if-else-nest": lambda d: '<a wx:if="{{ a }}">x</a><a wx:else>' * d + "{{ b }}" + "</a>" * d,
    "block-nest": lambda d: '<block wx:for="{{ l }}"><block wx:if="{{ item }}">' * (d // 2) + "{{ item }}" + "</block></block>" * (d // 2),
    "slot-value-nest": lambda d: "".join(f"<c><d slot:v{k}>" for k in range(d)) + "".join(f"{{{{ v{k} }}}}" for k in range(d)) + "</d></c>" * d,
    "template-data": lambda d: '<template is="t" data="{{ ' + "x: {..." * d + "a" + "}" * d + ' }}"/>',
}
DEPTH_FAMILIES_CSS = {
    "not-nest": lambda d: ":not(" * d + ".a .b" + ")" * d + "{c:d}",
    "calc-nest": lambda d: "a{b:" + "calc(1rpx + " * d + "1px" + ")" * d + "}",
    "calc-parens": lambda d: "a{b:calc(" + "(1rpx + " * d + "1px" + ")" * d + ")}",
    "media-nest": lambda d: "@media (min-width:1rpx){" * d + ".a{b:1rpx}:host{c:d}" + "}" * d,
    "layer-nest": lambda d: "@layer x{@supports (a:b){" * (d // 2) + ":host{c:1rpx}.a .b{}" + "}}" * (d // 2),
    "brackets": lambda d: "a{b:" + "[(" * (d // 2) + "1rpx" + ")]" * (d // 2) + "}",
    "func-nest": lambda d: "a{b:" + "f(g(" * (d // 2) + "1rpx" + "))" * (d // 2) + "}",
    "at-prelude": lambda d: "@scope " + "(.a " * d + ".b" + ")" * d + "{.c{}}",
    "import-conds": lambda d: '@import "a" layer(x) supports(' + "(" * d + "a:b" + ")" * d + ") screen;",
}


def structure_soup(rng, n):
    """Random nestings of the scope-introducing and structural attributes (wx:if chains, wx:for with renamed
    variables, slot: value receivers at any depth, template definitions and references, slots) with references to
    every name in play: the analysis-time and generation-time scope stacks must agree on all of them."""
    names = ["x", "y", "item", "index", "a"]
    out = []

    def refs():
        return "".join("{{ %s }}" % rng.choice(names + ["%s.%s" % (rng.choice(names), rng.choice(names)), "[ , %s]" % rng.choice(names)]) for _ in range(rng.randrange(0, 4)))

    def node(depth, in_chain):
        tag = rng.choice(["a", "block", "c", "slot", "template", "v"])
        attrs = []
        r = rng.random()
        if in_chain and r < 0.6:
            attrs.append(rng.choice(['wx:elif="{{ %s }}"' % rng.choice(names), "wx:else"]))
        elif r < 0.35:
            attrs.append('wx:if="{{ %s }}"' % rng.choice(names))
        if rng.random() < 0.3:
            attrs.append('wx:for="{{ %s }}"' % rng.choice(names + ["[1, 2]", "2"]))
            if rng.random() < 0.5:
                attrs.append('wx:for-item="%s"' % rng.choice(names))
            if rng.random() < 0.5:
                attrs.append('wx:for-index="%s"' % rng.choice(names))
            if rng.random() < 0.3:
                attrs.append('wx:key="%s"' % rng.choice(["*this", "k", "x"]))
        for _ in range(rng.randrange(0, 3)):
            if rng.random() < 0.35:
                nm = rng.choice(names)
                attrs.append("slot:%s" % nm if rng.random() < 0.5 else 'slot:%s="%s"' % (nm, rng.choice(names)))
        if rng.random() < 0.15:
            attrs.append('slot="%s"' % rng.choice(["n", "{{ x }}"]))
        if tag == "template":
            attrs.append(rng.choice(['name="t"', 'is="t"', 'is="{{ x }}" data="{{ ...y, item }}"']))
        if rng.random() < 0.3:
            attrs.append('v="{{ %s }}"' % rng.choice(names))
        rng.shuffle(attrs)
        kids = ""
        if depth > 0:
            chain = False
            for _ in range(rng.randrange(0, 4)):
                k, chain = node(depth - 1, chain)
                kids += k
        body = refs() + kids + refs()
        is_if = any(a.startswith("wx:if") or a.startswith("wx:elif") for a in attrs)
        if rng.random() < 0.15 and not body:
            return "<%s %s/>" % (tag, " ".join(attrs)), is_if
        return "<%s %s>%s</%s>" % (tag, " ".join(attrs), body, tag), is_if

    for _ in range(n):
        s, chain = "", False
        for _ in range(rng.randrange(1, 4)):
            k, chain = node(3, chain)
            s += k
        out.append(s)
    return out


def entity_grammar():
    """`&` followed by every kind of would-be entity body, in text and in an attribute value."""
    heads = ["", "a", "A", "lt", "amp", "frac12", "#", "#x", "#X", "#1", "#x1F", "#99999999999", "#xFFFFFFFFF", "#-1", "#x-1"]
    mids = ["", "问", "é", "😀", "\u00a0", "²", "Ⅷ", "٣", "_", "-", " ", "&", "<", "{{", "答;x"]
    tails = [";", "", ";;", "; "]
    out = []
    for h in heads:
        for m in mids:
            for t in tails:
                e = "&" + h + m + t
                out.append("<a b=\"x%sy\" c=%s>p%sq</a>%s" % (e, e.replace(" ", ""), e, e))
    return out


def fit_exponent(points):
    """Least-squares slope of log(y) over log(n)."""
    pts = [(math.log(n), math.log(max(y, 1))) for n, y in points if n > 0]
    if len(pts) < 3:
        return 0.0
    mx = sum(p[0] for p in pts) / len(pts)
    my = sum(p[1] for p in pts) / len(pts)
    den = sum((p[0] - mx) ** 2 for p in pts)
    return sum((p[0] - mx) * (p[1] - my) for p in pts) / den if den else 0.0


def run(run, pid, tier, seed, replay=None):
    run.rule = "distinct = (workload class, input) by content hash; non-trivial = the input reaches at least one recovery path (>= 1 diagnostic) or is >= 64 bytes of valid syntax"
    run.assumptions = [
        "verdicts are logical: steps counted by the event tap (skip_bytes weighted by byte count), peak heap by a counting global allocator; the CPU limit (RLIMIT_CPU) and the wall-clock watchdog only make a run inconclusive",
        "inputs whose element / bracket / operator-chain nesting exceeds 64 are outside the property; a conservative scanner filters them (counted)",
        "both build profiles are exercised: `checked` (debug assertions, overflow checks) and `shipped` (release)",
    ]
    rng = random.Random(seed * 7919 + 13)
    cases = []  # (kind, cls, text, opts/path)

    def add(kind, cls, text, extra=None):
        if len(text.encode("utf-8", "surrogatepass")) > 70000:
            return
        cases.append((kind, cls, text, extra))

    if replay:
        w = json.load(open(replay))["witness"]
        add(w["kind"], "replay", w["src"], w.get("extra"))
    else:
        wxml_lits, css_lits = repo_literals()
        run.extra["repo_literals"] = {"wxml": len(wxml_lits), "css": len(css_lits)}
        # generated valid programs
        node = __import__("check").find_node()
        gen_wxml = []
        if node:
            p = subprocess.run([node, "--no-warnings", os.path.join(VERIF, "lib/js/corpus.mjs"), str(seed), "300" if tier == "quick" else "2500"], stdout=subprocess.PIPE, text=True)
            for line in p.stdout.split("\n"):
                if line:
                    gen_wxml.append(json.loads(line)["src"])
        gen_css = []
        for i in range(150 if tier == "quick" else 2000):
            r = random.Random(rng.randrange(1 << 40))
            text, _ = csscheck.print_sheet(r, cssgen.Gen(r).stylesheet())
            gen_css.append(text)
        corpus_wxml = sorted(glob.glob(os.path.join(VERIF, "corpus", "*.wxml")))
        corpus_css = sorted(glob.glob(os.path.join(VERIF, "corpus", "*.wxss")))
        seeds_wxml = wxml_lits + gen_wxml + [open(f, encoding="utf-8").read() for f in corpus_wxml]
        seeds_css = css_lits + gen_css + [open(f, encoding="utf-8").read() for f in corpus_css]
        for t in seeds_wxml:
            add("tmpl", "seed", t, {"path": rng.choice(PATHS)})
        for t in seeds_css:
            add("css", "seed", t, {"opts": rng.choice(CSS_OPTION_SETS)})
        # systematic neighbourhoods of short seeds
        short_w = [t for t in seeds_wxml if len(t) <= 200]
        short_c = [t for t in seeds_css if len(t) <= 200]
        rng.shuffle(short_w)
        rng.shuffle(short_c)
        nb = 150 if tier == "quick" else 1200
        for t in short_w[:nb]:
            for m in neighbourhood(t, rng, 150 if tier == "quick" else 100000):
                add("tmpl", "neighbourhood", m, {"path": "a"})
        for t in short_c[:nb // 2]:
            for m in neighbourhood(t, rng, 100 if tier == "quick" else 100000):
                add("css", "neighbourhood", m, {"opts": rng.choice(CSS_OPTION_SETS)})
        for t in literal_grammar():
            add("tmpl", "literal-grammar", t, {"path": "a"})
        for t in entity_grammar():
            add("tmpl", "entity-grammar", t, {"path": "a"})
        for t in structure_soup(rng, 2500 if tier == "quick" else 40000):
            add("tmpl", "structure-soup", t, {"path": "a"})
        k = 12 if tier == "quick" else 60
        for t in seeds_wxml:
            for m in dict_mutants(t, rng, DICT_WXML, k):
                add("tmpl", "dict-mutant", m, {"path": rng.choice(PATHS)})
        for t in seeds_css:
            for m in dict_mutants(t, rng, DICT_CSS, k):
                add("css", "dict-mutant", m, {"opts": rng.choice(CSS_OPTION_SETS)})
        # every option set on a few sheets
        for o in CSS_OPTION_SETS:
            for t in seeds_css[:6]:
                add("css", "option-sweep", t, {"opts": o})
        # size ladders
        sizes = [1 << k for k in range(10, 17)] if tier == "thorough" else [1 << k for k in (10, 12, 14)]
        for name, f in LADDER_FAMILIES_WXML.items():
            for n in sizes:
                add("tmpl", "ladder:" + name, f(n), {"path": "a", "ladder": (name, n)})
        for name, f in LADDER_FAMILIES_CSS.items():
            for n in sizes:
                add("css", "ladder:" + name, f(n), {"opts": {"class_prefix": "p", "convert_host": True, "import_sign": "I"}, "ladder": (name, n)})
        # depth ladders
        for name, f in DEPTH_FAMILIES_WXML.items():
            for d in DEPTHS:
                add("tmpl", "ladder:depth-" + name, f(d), {"path": "a", "ladder": ("depth-" + name, d)})
        for name, f in DEPTH_FAMILIES_CSS.items():
            for d in DEPTHS:
                add("css", "ladder:depth-" + name, f(d), {"opts": {"class_prefix": "p", "convert_host": True, "import_sign": "I", "host_is": "h"}, "ladder": ("depth-" + name, d)})

    # domain filter + dedup
    seen = set()
    payload = []
    meta = {}
    for kind, cls, text, extra in cases:
        ok = in_domain_css(text) if kind == "css" else in_domain_wxml(text)
        if not ok:
            run.count("out_of_domain")
            continue
        h = common.sha(kind + "\0" + text + "\0" + json.dumps(extra, sort_keys=True, default=str))
        if h in seen:
            continue
        seen.add(h)
        i = len(payload)
        c = {"id": i, "kind": kind, "src": text}
        if kind == "css":
            c["opts"] = (extra or {}).get("opts", {})
            c["path"] = "p"
        else:
            c["path"] = (extra or {}).get("path", "a")
        payload.append(c)
        meta[i] = (kind, cls, text, extra, h)
    run.extra["inputs"] = len(payload)
    ladders = {}
    maxima = {"steps_ratio": 0.0, "heap_ratio": 0.0, "diag_ratio": 0.0}
    for profile in ("checked", "shipped"):
        gev = common.build_gev(profile)
        results = common.run_gev(gev, "total", payload, cpu_per_case=60, wall_s=1500 if tier == "quick" else 5400)
        for i, (kind, cls, text, extra, h) in meta.items():
            r = results.get(i)
            witness = {"kind": kind, "class": cls, "profile": profile, "src": text if len(text) < 6000 else text[:3000] + "…" + text[-500:], "extra": extra, "len": len(text)}
            run.evaluations += 1
            run.count("class:" + cls.split(":")[0])
            if r is None or r.get("inconclusive"):
                run.inconclusive.append((r or {}).get("inconclusive", "no result") + f" ({cls}, {len(text)} bytes, {profile})")
                continue
            if r.get("crash"):
                sig = r["crash"].get("signal")
                if sig == 24 or sig == 9:
                    # CPU limit / kill: re-run alone before it counts
                    r2 = common.run_gev(gev, "total", [payload[i]], shards=1, cpu_per_case=120).get(i)
                    if r2 is None or r2.get("crash") or r2.get("inconclusive"):
                        run.violation(f"{kind} input ({cls}, {len(text)} bytes, {profile}) exhausted the CPU limit: the compiler does not return", {**witness, "crash": r.get("crash")})
                    else:
                        run.inconclusive.append("CPU limit hit in a batch but not alone")
                    continue
                run.violation(f"{kind} input ({cls}, {len(text)} bytes, {profile}) killed the process: signal {sig} {r['crash'].get('stderr', '')[-200:]}", {**witness, "crash": r["crash"]})
                continue
            n = r["n"]
            d = nesting_depth(text, kind)
            if r["outcome"] != "ok":
                f = r["failures"][0]
                run.violation(f"{r['outcome']} in {f['phase']} ({profile}) at {f['site']}: {f['msg'][:160]} — {kind} input {text[:80]!r}", {**witness, "failures": r["failures"]})
                continue
            steps = sum(r["steps"].values())
            sr = steps / ((n + 64) ** 2)
            hr = r["peak"] / ((n + 64) * (d + 2))
            dr = r["n_diag"] / (n + 1)
            maxima["steps_ratio"] = max(maxima["steps_ratio"], sr)
            maxima["heap_ratio"] = max(maxima["heap_ratio"], hr)
            maxima["diag_ratio"] = max(maxima["diag_ratio"], dr)
            if steps > A_STEPS * (n + 64) ** 2:
                run.violation(f"{steps} logical steps for {n} bytes exceed the envelope {A_STEPS}*(n+64)^2 ({kind}, {cls}, {profile})", {**witness, "steps": r["steps"]})
                continue
            if r["peak"] > B_HEAP * (n + 64) * (d + 2) + C_HEAP:
                run.violation(f"peak heap {r['peak']} bytes for {n} bytes at depth {d} exceeds the envelope ({kind}, {cls}, {profile})", {**witness, "peak": r["peak"]})
                continue
            if r["n_diag"] > 4 * (n + 1):
                run.violation(f"{r['n_diag']} diagnostics for {n} bytes ({kind}, {cls}, {profile})", witness)
                continue
            if r.get("bad_diag"):
                run.violation(f"diagnostic with an invalid location: {r['bad_diag'][0]}", {**witness, "bad_diag": r["bad_diag"]})
                continue
            if r.get("pos_desync"):
                run.violation(f"parser position out of sync with its byte cursor: {r['pos_desync'][0]}", {**witness, "pos_desync": r["pos_desync"]})
                continue
            if r.get("col_desync"):
                run.violation(f"stylesheet output column out of sync: {r['col_desync'][0]}", {**witness, "col_desync": r["col_desync"]})
                continue
            if extra and extra.get("ladder"):
                name, size = extra["ladder"]
                ladders.setdefault((kind, name, profile), []).append((n, steps, max(r["peak"], r.get("out_len") or 0)))
            if r["n_diag"] >= 1 or n >= 64:
                run.shape(h[:16])
            if len(run.samples) < 4 and cls in ("dict-mutant", "neighbourhood"):
                run.sample({"kind": kind, "class": cls, "src": text[:300], "outcome": r["outcome"], "steps": r["steps"], "peak_heap": r["peak"], "diagnostics": r["n_diag"]})
    # AddressSanitizer pass (thorough tier): the same inputs through the driver built with -Zsanitizer=address. The
    # unsafe code on the compile path lives in the dependencies (cssparser, compact_str, sourcemap, ...); a report
    # means memory unsafety was reached through the safe API by an in-domain input. Stack exhaustion and resource
    # limits under the sanitizer's larger frames are not verdicts (the two uninstrumented profiles decide those).
    if tier == "thorough" and not replay and os.environ.get("VERIF_NO_ASAN") != "1":
        asan = common.build_gev_asan()
        if asan is None:
            run.extra["asan"] = {"status": "not available on this machine (see log); pass not performed"}
        else:
            env = dict(os.environ)
            env["ASAN_OPTIONS"] = "abort_on_error=1:halt_on_error=1:detect_leaks=0:allocator_may_return_null=1:detect_stack_use_after_return=0"
            results = common.run_gev(asan, "total", payload, cpu_per_case=240, mem_bytes=0, wall_s=5400, env=env)
            st = {"inputs": 0, "reports": 0, "other_crashes_not_judged": 0, "inconclusive": 0}
            for i, (kind, cls, text, extra, h) in meta.items():
                r = results.get(i)
                if r is None or r.get("inconclusive"):
                    st["inconclusive"] += 1
                    continue
                st["inputs"] += 1
                if r.get("crash"):
                    err = r["crash"].get("stderr") or ""
                    if "AddressSanitizer" in err and "stack-overflow" not in err and "out of memory" not in err and "allocation-size-too-big" not in err:
                        st["reports"] += 1
                        m = re.search(r"ERROR: AddressSanitizer: ([a-z-]+)", err)
                        run.violation(f"AddressSanitizer: {m.group(1) if m else 'report'} on a {kind} input ({cls}, {len(text)} bytes)", {"kind": kind, "class": cls, "profile": "asan", "src": text if len(text) < 6000 else text[:3000] + "…" + text[-500:], "extra": extra, "report": err[-3000:]})
                    else:
                        st["other_crashes_not_judged"] += 1
            run.evaluations += st["inputs"]
            run.count("asan_inputs", st["inputs"])
            run.extra["asan"] = st
    expo = {}
    for (kind, name, profile), pts in ladders.items():
        if len(pts) >= 3:
            es = fit_exponent([(n, s) for n, s, _ in pts])
            eh = fit_exponent([(n, p) for n, _, p in pts])
            expo[f"{kind}:{name}:{profile}"] = {"steps": round(es, 2), "heap": round(eh, 2), "points": len(pts)}
            if es > GROWTH_MAX or eh > GROWTH_MAX:
                run.violation(f"size ladder {kind}:{name} ({profile}) grows with exponent steps={es:.2f} heap={eh:.2f} (> {GROWTH_MAX})", {"kind": kind, "src": "ladder family " + name, "points": pts})
    run.extra["growth_exponents"] = expo
    run.extra["observed_maxima"] = {k: round(v, 3) for k, v in maxima.items()}
    run.extra["envelopes"] = {"A_steps": A_STEPS, "B_heap": B_HEAP, "C_heap": C_HEAP}
    if not run.samples:
        run.sample({"note": "see counts"})
