"""Writes /verif/MANIFEST.json from the table below (kept as code so that the manifest is always valid)."""
import json
import os
import subprocess

VERIF = os.path.dirname(os.path.dirname(os.path.dirname(os.path.abspath(__file__))))

HOOK_COMMITS = ["7a450d7", "cf46330", "1e97848"]

CHECKS = {
    "C03": dict(
        technique="differential execution monitor: generated JS run on the real runtime, delivered values vs reference interpreter over the abstract expression",
        text="Runtime monitoring of executions: every generated expression is compiled by the SUT, the generated code is executed on the type-stripped real runtime, and the value that crosses the protocol boundary (R.r) is compared with an interpreter that applies the JS engine's operators to the abstract tree. Exhaustive over all operator pairs at depth 2 (minimal and redundant parentheses) and over a literal grammar, random trees to depth 6/7 beyond that. Says: held on the executions observed, not for all expressions.",
        note="Trusted: the reference interpreter (m/c semantics from the property text), the JS engine, the loader that type-strips glass-easel/src. (expr, env) pairs on which the reference throws are skipped and counted.",
        ref="2/C03",
    ),
}

CHECKS["C04"] = dict(
    technique="reference-model monitor: protocol-boundary log + node-tree snapshot of the real runtime vs reference renderer over the abstract template",
    text="Generated abstract templates (all element kinds, attribute families x value kinds, if/for/template/include/slot) are printed as WXML with syntactic variation, compiled by the SUT and executed on the real runtime in creation mode; the flattened node tree and the per-element channel values recorded at the protocol boundary are compared with a renderer written from the documentation. Held on the templates x data environments observed.",
    note="Trusted: the reference renderer (Appendix B), the type-stripping loader, the JS engine. Templates on which the reference throws are skipped and counted. Components are native nodes; slot-value scopes are covered by C05/C06.",
    ref="2/C04",
)

CHECKS["C06"] = dict(
    technique="self-consistency monitor over update histories: snapshot of the updated instance vs snapshot of a fresh creation after every step (real runtime, real index.ts update-path trees + synthetic trees)",
    text="Histories create(D0); update(D1); ... of length 1-6 are driven on the real runtime through setData / spliceArrayDataOnPath (natural update-path trees, default and virtualTree update modes) and through procGenWrapper.update with exact / coarsened / `true` trees; after every step the snapshot of the updated instance must equal that of a fresh creation with the same data. No reference model is involved. Held on the histories observed.",
    note="Trusted: the snapshot (real node tree + last value written per channel at the protocol boundary), the loader. Listener closures and change-listener bookkeeping are not part of the snapshot.",
    ref="2/C06",
)

CHECKS["C07"] = dict(
    technique="invariant at a hook + self-consistency monitor: the advertised binding-map keys (B) checked against the abstract template's unreachable positions; setData through the real binding-map path vs fresh creation",
    text="For generated templates the object B returned by the generated template function is inspected: every advertised field must have no occurrence in a position the map cannot reach (computed from the abstract template per the property text) and no holes; each advertised field is then changed through the real setData in default update mode, the boundary log confirms that the binding-map path (not the tree update) ran, and the snapshot must equal a fresh creation. Held on the templates observed.",
    note="Trusted: the analysis of unreachable positions (written from the property text), the snapshot, the loader. Helper fields (Ctor, fn) keep their type.",
    ref="2/C07",
)

CHECKS["C05"] = dict(
    technique="reference-model monitor with sentinels: every candidate referent carries a distinct value; delivered values vs the reference environment chain; thorough: scope conversion (unsafe SubExpressionMut) interpreted by Miri",
    text="Templates nest wx:for scopes (default and renamed item/index drawn from a 6-name pool so that shadowing is the norm), slot-value scopes on children of a dynamic-slots component, script modules and <template name> bodies; probe bindings place one identifier at every child position of every expression form. Data fields, modules, slot values and loop items carry distinct sentinels, so the delivered value names the scope that was read; it is compared with the reference environment chain. Held on the templates observed.",
    note="Trusted: the reference environment chain (ref.mjs), the loader, the child component compiled by the same compiler.",
    ref="2/C05",
)

CHECKS["C11"] = dict(
    technique="boundary-log monitor with unique sentinels: resolve(emitted path) must be identical to the delivered value (get-put law); non-assignable expressions must carry no path",
    text="Model, event, change: and legacy event-attribute bindings and wx:for lists are bound to access chains (static/constant/data-dependent/nested indices), conditionals in head and tail position, script-module members (inline and external) and non-assignable expressions, at up to two levels of wx:for over path and non-path lists. Every leaf of data and modules is a unique sentinel, so identity of resolve(path) with the delivered value decides the property; conditionals are judged by the branch taken. Held on the bindings observed.",
    note="Trusted: classification of assignability on the abstract expression; the reference module loader; the loader. Completeness (every assignable expression gets a path) is reported in evidence but not required by the property.",
    ref="2/C11",
)

CHECKS["C12"] = dict(
    technique="boundary-log monitor, exhaustive over Unicode scalar values: strings observed at the protocol boundary vs the strings the generator intended",
    text="Every Unicode scalar value (thorough: all 1,112,064; quick: U+0000-U+2FFF, encoding/escaping boundaries and 20,000 random ones) followed by each of 14 successor characters is embedded as static text, static attribute value and string literal inside a binding, spelt raw / as named, decimal or hex entity / as JS escape; the strings received by T and R.r on the real runtime must equal the intended ones code unit for code unit. All 2125 HTML5 named entities and every name position (tag, attribute, dataset, mark, event, generic, extra-attr, worklet, slot, wx:key, template name, object key, group key) are checked over their admissible alphabets.",
    note="Trusted: the generator's spelling functions; Python's html5 entity table (committed as JSON). NUL is never spelt \\0 before a digit and astral characters never as surrogate escapes (documented limits).",
    ref="2/C12",
)

CHECKS["C02"] = dict(
    technique="output monitor: every artefact of every emit API is handed to the JS engine's parser in sloppy and strict mode",
    text="All artefacts (per-template generator object, all-templates bundle, MiniProgram bundle, runtime prelude, global export, script export) of generated templates, of randomly damaged templates (diagnostics of every level), of size ladders that drive the three identifier counters past the short reserved words (quick: 3,000 declarations; thorough: 210,000), of hostile paths / module names / scope names / field names / static strings, and of the literal grammar must parse with V8 in both modes. The identifier tap reports reserved-word candidates at generation time (localisation only; the verdict is the parse).",
    note="Trusted: V8's parser as the definition of syntactic validity. Cases whose inline or external script bodies are themselves invalid are outside the property and counted.",
    ref="2/C02",
    engine="gev",
)

CHECKS["C14"] = dict(
    technique="round-trip monitor: print -> parse -> print fixpoint and diagnostics, plus behavioural equivalence of original and reprinted templates on the real runtime (creation + update history)",
    text="Generated templates (full spelling variation) are printed by the SUT plain and with mangling; the printed text is parsed again: it must produce no diagnostic above Note, print to the same text, and its generated code must give the same snapshots as the original on two data environments through creation and two update steps. Three recorded findings (pinned by the repository's own tests) are matched by bug-compatible normalisation; anything else is a violation.",
    note="Trusted: the snapshot comparison; the generator. The mangled variant of templates that contain wx:for is only judged for the print fixpoint (recorded finding mangled-for-scopes-undeclared).",
    ref="2/C14",
)

CHECKS["C13"] = dict(
    technique="exhaustive enumeration of (base, rel) path pairs observed through the dependency queries + reference-model monitor of multi-file groups rendered on the real runtime",
    text="(A) every pair of a referrer path and a reference with up to 3 (quick) / 4 (thorough) segments over {a, b, ., .., empty} x leading slash x suffix is compiled and the targets reported by direct_dependencies / script_dependencies are compared with a POSIX-like reference resolver (2.4 M pairs thorough); (B) four-file groups with per-file sentinels, overlapping template names, relative/absolute/suffixed spellings, external scripts with require, all insertion orders and import_group splits are rendered on the real runtime and compared with the reference renderer (local > later import > earlier import).",
    note="Trusted: the reference resolver and renderer. Pairs with empty segments or a referrer ending in `.`/`..` are judged for internal consistency only (the property text is silent). js_bindings.rs (wasm) cannot execute in this image; the same functions are exercised through the Rust API.",
    ref="2/C13",
)

CHECKS["C16"] = dict(
    technique="invariant monitor over every location stored in the public AST (walked by the Rust driver) and over the printer's source map; child-iterator exactly-once monitor on the same walk (thorough: under Miri)",
    text="Generated templates are re-spelt with LF / CRLF line breaks, multi-byte and astral characters before every node; the driver walks the public AST and emits every stored location; for each, the source slice must equal the spelling / decode to the value / parse to the number, children must nest in parents (including the computed locations of compound expressions) and siblings must be ordered. Every entry of the Stringifier source map must have non-decreasing output positions, point at its token in the printed text, carry the source spelling as name and start at a recorded construct start.",
    note="Trusted: the monitor's entity / string-literal decoders; the AST walker (wildcard arms count what it cannot classify). Only templates parsed without Error-level diagnostics are judged.",
    ref="2/C16",
    engine="gev",
)

CHECKS["C15"] = dict(
    technique="diagnostic monitor with single-defect injection + position-sync invariant at the parser tap",
    text="(i) generated templates in documented syntax must produce nothing at Warn or above; (ii) each of 11 structural defects, injected at a random applicable site of a generated (multi-line, CJK/astral-bearing) template, must yield a diagnostic of the expected kind at or above the documented level; (iii) every diagnostic of every input, including randomly damaged templates, must have start <= end on existing lines and UTF-16 columns, and the event tap recomputes (line, column) from the byte cursor at every position() and after every try_parse rollback (86 M position events per quick run).",
    note="Trusted: the defect table of Appendix A; the injection functions. Inputs on which the compiler is not total are C01's business and only counted here.",
    ref="2/C15",
    engine="gev",
)

CHECKS["C20"] = dict(
    technique="replicated-execution monitor: the same input set compiled in several fresh processes (fresh hash seeds) under permuted insertion orders and import_group splits; outputs compared byte for byte",
    text="Groups of 2-5 templates (each with >= 12 data fields so that the binding-map initialiser has many keys) and scripts are compiled by 6 (quick) / 8 (thorough) fresh driver processes under different insertion orders and import_group splits; every emit API must yield exactly one distinct byte string per file set. Stylesheets with every option are transformed in each process and CSS + source map bytes must coincide.",
    note="Trusted: each driver invocation is a fresh process, so std's RandomState differs between observations.",
    ref="2/C20",
    engine="gev",
)

_CSS_NOTE = "Trusted: the annotated generator (self-checked on every case: cssparser must read the input as the intended token list, otherwise the case is discarded and counted), cssparser 0.34 as tokenizer of the outputs, the expected-output function."
CHECKS["C08"] = dict(
    technique="token-stream monitor: outputs re-tokenised by cssparser vs the expected token sequence computed from the annotated generator; whitespace obligations (must / must not) checked per adjacency; verbatim micro-syntax groups",
    text="Stylesheets generated from a CSS grammar (selector functions nested to depth 3, rule-bearing and other at-rules nested to depth 4, every token kind in declaration values, calc nests, escaped identifiers, unicode-range, An+B) are transformed under random option sets; both outputs are re-tokenised and must equal the expected token sequence; whitespace that was annotated as meaningful must survive and whitespace must not appear where it would change the meaning; unicode-range values are read back from the raw output.",
    note=_CSS_NOTE, ref="2/C08", engine="css-oracle",
)
CHECKS["C09"] = dict(
    technique="token-stream monitor focused on class selectors and sign comments: the set of rewritten identifiers and the comments of both outputs vs the annotation `is_class_name`",
    text="Same generator; every identifier annotated as a class selector (at any depth of selector functions, inside rule-bearing at-rules and at-rule prelude blocks) must appear as `P--name`, preceded by the sign comment when configured; every other token (ids, types, attribute values, pseudo names, keyframe selectors, custom properties, `.5`, `a.b` and `.x` in values) must be unchanged; the comments of the outputs must be exactly the expected sign / placeholder comments.",
    note=_CSS_NOTE, ref="2/C09", engine="css-oracle",
)
CHECKS["C10"] = dict(
    technique="numeric monitor: every numeric token of the outputs vs value*100/ratio (rpx) or the input value, integers exactly, with bug-compatible matchers for two pinned findings",
    text="Integers across the i32 range, decimals with 1-9 significant digits, exponents, signed and leading-dot spellings, look-alike units (RPX, rpxx, erpx) in declarations, functions, calc, media/container queries and custom properties, ratios {750, 375, 10, 1, 0.5, 7}: rpx must become vw with value*100/ratio within single precision, other numbers must keep their value (integers exactly). The 6-significant-digit float printer and the unconverted bare at-rule prelude are recorded findings pinned by the repository's tests and matched bug-compatibly.",
    note=_CSS_NOTE, ref="2/C10", engine="css-oracle",
)
CHECKS["C17"] = dict(
    technique="partition monitor: both outputs re-tokenised and compared with the expected placement of every rule; warnings and brace balance checked",
    text=":host rules at at-rule depth 0-4 interleaved with ordinary rules under all of {convert_host, class_prefix, host_is}: each plain :host rule must appear only in the low-priority output as [wx-host=P] (+ ,[is=H]) inside a replay of its at-rule chain, combined :host selectors must vanish from both outputs with exactly one warning each, everything else must stay in the normal output in order; with conversion off the low-priority output is empty.",
    note=_CSS_NOTE, ref="2/C17", engine="css-oracle",
)
CHECKS["C18"] = dict(
    technique="placeholder monitor: the comment emitted for every @import is percent-decoded and compared with the path; wrappers and position warnings vs the generated conditions",
    text="@import in string, url() and url(\"...\") form with paths over quotes, spaces, `*/`, `%`, CJK, with every combination of layer() / supports() / media conditions, at the top and after other rules: with a sign the placeholder must start with the sign, decode to the exact path, sit inside @layer/@supports/@media wrappers equivalent to the conditions (balanced), and IllegalImportPosition must be reported exactly for imports that follow other rules; without a sign the rule must pass through token for token.",
    note=_CSS_NOTE, ref="2/C18", engine="css-oracle",
)
CHECKS["C19"] = dict(
    technique="source-map monitor: entries of extract_source_map vs the real UTF-16 column of every output token and the start of its annotated source token; JSON round trip with an own VLQ decoder; output-column invariant at the append tap",
    text="For every non-whitespace token of both outputs (replayed wrappers excluded) an entry must exist at the token's real UTF-16 column, pointing at the start of the input token it came from (closing brackets may use the opening bracket, synthesised tokens any position of the triggering rule), rewritten tokens must carry the original spelling as name, entries must be non-decreasing and the JSON serialisation must decode to the same entries; the CssAppend tap checks utf16_len against the real output length after every append.",
    note=_CSS_NOTE, ref="2/C19", engine="css-oracle",
)

CHECKS["C01"] = dict(
    technique="totality monitor: every phase under catch_unwind in an isolated worker with the event-tap monitors armed (logical step fuel, stall detection, position sync) and a counting allocator, in both build profiles; size and nesting-depth growth ladders; process aborts attributed through a BEGIN/result protocol; thorough: the same driver interpreted by Miri (small batches) and the whole payload through an AddressSanitizer build of the driver",
    text="Inputs: every WXML/CSS literal of the repository's own tests, generated valid programs, systematic neighbourhoods of short seeds (every prefix, every single-character deletion, substitutions from an alphabet of hostile characters), an exhaustive numeric-literal grammar, dictionary mutants, every stylesheet option set (incl. ratio 0, negative, NaN, infinite), hostile template paths, and size ladders of adversarial families up to 16-64 KiB; each input runs add_tmpl, every emit API, both printers and the stylesheet transformer in both build profiles (debug assertions + overflow checks, and release). Verdict: returned normally, logical steps <= 2(n+64)^2, peak heap <= 30000(n+64)(d+2)+4 MiB, diagnostics <= 4(n+1), fitted growth exponents on ladders <= 2.3; a parser that ticks 100,000 times without advancing its cursor is a stall.",
    note="Trusted: the tap placement (every cursor primitive of the parser), the counting allocator, the depth filter (over-approximates; out-of-domain inputs are counted, not judged). CPU-limit / watchdog hits are re-run alone and otherwise inconclusive, never violations by themselves.",
    ref="2/C01", engine="gev",
)

NOT_YET = {}


def main():
    props = [json.loads(l) for l in open(os.path.join(VERIF, "properties.jsonl"), encoding="utf-8")]
    checks = []
    na = []
    for p in props:
        pid = p["id"]
        if pid in CHECKS:
            c = CHECKS[pid]
            checks.append({
                "property_id": pid,
                "quick_cmd": f"./check {pid} --tier quick",
                "thorough_cmd": f"./check {pid} --tier thorough",
                "evidence_file": f"/verif/evidence/{pid}.json",
                "replay_cmd_template": f"./check {pid} --replay {{path}}",
                "engine": c.get("engine", "gev+runtime"),
                "level_claimed": {"category": "exploration", "text": c["text"], "design_ref": c["ref"]},
                "level_note": c["note"],
                "technique": c["technique"],
            })
        else:
            na.append({"property_id": pid, "reason": NOT_YET.get(pid, "check not built yet in this round (runtime monitoring applies; see DESIGN.md section 2)")})
    m = {
        "version": 1,
        "setup_cmd": "./setup.sh",
        "hooks": {
            "guard": "cargo feature `verif-hooks` (both crates; off by default)",
            "enable": "the driver crate /verif/harness depends on both crates by path with features = [\"verif-hooks\"], default-features = false",
            "baseline_off_cmd": "cd /repo && cargo test --workspace --no-fail-fast --offline",
            "source_commits": HOOK_COMMITS,
            "add_only": True,
        },
        "engines": [
            {"name": "gev", "path": "/verif/harness", "serves_properties": [p["id"] for p in props], "kind_free_text": "Rust driver linking both compilers from /repo with the event tap on; JSONL batches; counting allocator; tap monitors (fuel, stall, position sync, output column)"},
            {"name": "gev+runtime", "path": "/verif/lib/js", "serves_properties": ["C02", "C03", "C04", "C05", "C06", "C07", "C11", "C12", "C13", "C14", "C15", "C16"], "kind_free_text": "generated JS executed on the real glass-easel runtime (type-stripped from the working tree), protocol-boundary log + node-tree snapshots, reference renderer"},
            {"name": "css-oracle", "path": "/verif/lib/py", "serves_properties": ["C08", "C09", "C10", "C17", "C18", "C19"], "kind_free_text": "annotated-token stylesheet generator; expected output computed from annotations; observed output re-tokenised by cssparser inside gev"},
        ],
        "checks": checks,
        "not_applicable": na,
        "notes": "All checks are runtime monitors over executions of the real code (see DESIGN.md). Exit 0 = held on what was observed; 1 = violation with replay; 2 = inconclusive/harness error.",
    }
    with open(os.path.join(VERIF, "MANIFEST.json"), "w") as f:
        json.dump(m, f, indent=1)
    print("MANIFEST.json:", len(checks), "checks,", len(na), "not claimed")


if __name__ == "__main__":
    main()
